#!/bin/sh
# Runs the repository's own test suite (guard WESTES_FLEX_VERIF off) on a
# scratch copy of /repo's working tree.  Prints the automake summary.
set -e
REPO=${VP_REPO:-/repo}
D=$(mktemp -d "${TMPDIR:-/var/tmp}/flexbase.XXXXXX")
trap 'rm -rf "$D"' EXIT
rsync -a --exclude .git "$REPO"/ "$D"/
cd "$D"
make -C src clean >/dev/null 2>&1 || true
make -C src -j16 >/dev/null 2>&1
make -C tests clean >/dev/null 2>&1 || true
make -C tests check -j8 2>&1 | grep -E '^# (TOTAL|PASS|FAIL|XFAIL|ERROR|SKIP)|^(FAIL|ERROR):' | tee "$D/summary"
grep -q '^# FAIL:  *0' "$D/summary" && grep -q '^# ERROR:  *0' "$D/summary"
