#!/bin/sh
# usage: mkworktree.sh <id>   -> /tmp/wt_<id> : git worktree of /repo HEAD plus the (untracked) build infrastructure
set -e
ID=$1
D=/tmp/wt_$ID
git -C /repo worktree remove --force $D 2>/dev/null || true
rm -rf $D
git -C /repo worktree add --detach $D HEAD >/dev/null 2>&1
rsync -a --ignore-existing --exclude .git --exclude 'src/*.o' --exclude 'src/flex' --exclude 'src/stage1flex' --exclude 'src/stage1scan.c' --exclude 'tests/*.o' /repo/ $D/
# make sure generated files are older than sources so that make rebuilds them
( cd $D && make -C src clean >/dev/null 2>&1 || true; make -C tests clean >/dev/null 2>&1 || true )
echo $D
