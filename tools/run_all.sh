#!/bin/sh
# usage: run_all.sh [quick|thorough] [ids...]  -- runs the registered checks one after the other
TIER=${1:-quick}; shift 2>/dev/null
IDS=${*:-C01 C02 C03 C04 C05 C06 C07 C08 C09 C10 C11 C12 C13 C14 C15 C16 C17 C18 C19}
cd /verif
for id in $IDS; do
  s=$(date +%s)
  ./check $id --tier $TIER > logs/run_$id.$TIER.log 2>&1
  rc=$?
  e=$(date +%s)
  echo "$id rc=$rc wall=$((e-s))s $(tail -1 logs/run_$id.$TIER.log | cut -c1-200)"
done
