#!/usr/bin/env python3
"""usage: tools/loops.py <entry> [n] [k]  -- loop classes and bounds of the E1 job for a corpus entry (debug aid)"""
import sys, os
sys.path.insert(0, os.path.dirname(os.path.dirname(os.path.abspath(__file__))))
from vp import core, corpus, engines as E, cbmc, build
from vp.props.c02 import C
import subprocess
ctx = core.Ctx('DBG', 'quick', 0)
s = corpus.specs(names=[sys.argv[1]])[0]
n = int(sys.argv[2]) if len(sys.argv) > 2 else 3
k = int(sys.argv[3]) if len(sys.argv) > 3 else 0
jobs, g = E.e1_jobs(ctx, s, C('default'), [n], maxnul=k)
j = jobs[0]
gb = os.path.join(j.workdir, 't.gb')
subprocess.run(['goto-cc', '-o', gb] + ['-I' + i for i in j.includes] + j.sources, cwd=j.workdir)
us, info = cbmc.classify_loops(j, gb)
txt = open(g.cpath).read().split('\n')
for name, cls, b, line in info:
    if cls != 'harness':
        print(name, cls, b, line, txt[line - 1].strip()[:90])
