#!/usr/bin/env python3
"""Regenerates MANIFEST.json from the table below (kept valid at all times)."""
import json, os
HERE = os.path.dirname(os.path.dirname(os.path.abspath(__file__)))
TRUSTED = ("bounded: every query uses --unwinding-assertions; trusted base = cbmc 6.11/MiniSat, gcc+ASan/UBSan for native replay, "
           "vp/pattern.py+vp/spec.py (independent reference matcher), GNU m4, harness stubs listed in the evidence file")
CLAIMS = {
 'C01': dict(text="For every corpus rule set (all constructs of the documented pattern language) the solver proves the generated scanner equal to an independent reference: E2 = automaton reached through the scanner's own yy_get_previous_state() accepts the first matching rule and jams exactly when no rule is viable, for all byte strings up to depth 12/20; E1 = one yylex() step from an arbitrary start condition and line-start flag returns the longest-match/first-rule token with the right yytext/yyleng and leaves the scanner positioned behind it, for all inputs of length 0..4 (quick) / 0..6 (thorough).",
             note="programs quantifier = enumerated corpus, inputs quantifier = solver; tokens longer than the bound and rule sets outside the corpus are outside the claim. " + TRUSTED,
             technique="bounded model checking (cbmc, SAT) of the generated scanner against a generated bit-parallel reference matcher", design="4/C01"),
}
CLAIMS.update({
 'C03': dict(text="Inductive refill step (white box): from an ARBITRARY valid buffer state (capacity 1..3, any fill, any scan position, status NORMAL/NEW/EOF-pending, symbolic line-start flag and start condition) followed by up to 3 further source bytes delivered by a harness input routine in ARBITRARY read sizes, one yylex() returns the reference's first token of the logical stream, and the representation invariant (unread buffer text ++ unread source == rest of the stream, sentinels in place) holds again -- so the claim extends to read schedules and histories of any length. yy_get_next_buffer() is additionally checked as a unit against its contract (move of the partial token, growth, read request size, end-of-buffer characters, EOF/LAST_MATCH), and interactive scanners are shown not to request input beyond the first point where no longer match is possible.",
             note="buffers > 3 bytes and > 3 further bytes per step are outside the bound; input via the generated stdio/read(2) yyread() is not part of this check; in-memory sources through yy_scan_bytes/yy_scan_buffer (E1). " + TRUSTED,
             technique="bounded model checking (cbmc, SAT): one symbolic inductive step over buffer state and read schedule + function contract check", design="4/C03"),
 'C07': dict(text="(a) For REJECT / variable-trailing-context scanners the accepting list of every automaton state reached by strings up to the bound is exactly the set of matching rules in rule order (E2 on yy_acclist). (b) One yylex() step whose single shared action rejects on its first k visits (k=0..3): every visit must be the next entry of the reference's list of all (length, rule) matches ordered by length descending then rule position, with yytext/yyleng set, and the token finally returned is the first not rejected. (c) real binary: both spellings REJECT and yyreject() are detected (generated file compiles), REJECT with -Cf/-CF is refused.",
             note="REJECT walk bounded to tokens of <= 3 bytes; non-growing buffer behaviour not covered. " + TRUSTED,
             technique="bounded model checking (cbmc, SAT) of the REJECT walk and accepting lists against a reference match list", design="4/C07"),
 'C08': dict(text="One yylex() step whose action applies a solver-chosen edit -- yyless(k) for any k, yyunput(c) for any byte c, yyinput() -- followed by the assertion that yytext/yyleng are as documented, the return value of yyinput() is the next byte (its end-of-input value only at the end), yylineno is adjusted as documented, and the scanner's unread input is exactly the edited stream (the state from which C01's first-token obligations apply to the next call). yymore() is checked over two steps in the thorough tier.",
             note="one edit per action; edits across refills and push-back overflow are outside the bound. " + TRUSTED,
             technique="bounded model checking (cbmc, SAT) of actions calling yyless/yyunput/yyinput/yymore against a logical-stream model", design="4/C08"),
 'C09': dict(text="Every first-token query on %option yylineno scanners (newline reachable through literals, classes, negated classes, '.', (?s:.), definitions, {-}/{+} results, trailing context, '|' actions, case folding, the default rule) asserts yylineno == 1 + newlines of the consumed text (trailing context not counted) for non-reentrant, reentrant (per buffer, through yyget_lineno) and c99 scanners; scanners without the option must leave it at 1; yyless/yyunput/yyinput adjustments are asserted in the C08 harness.",
             note="count after one step from the initial value; the step form extends to any number of tokens. " + TRUSTED,
             technique="bounded model checking (cbmc, SAT) of generated scanners with a newline-counting assertion", design="4/C09"),
 'C11': dict(text="Two user buffers (yy_scan_buffer in place, yy_scan_bytes private copy); after one yylex() step on the first, each of switch-away-and-back, push/pop, delete of the non-current buffer, flush of the other buffer, and switch-to-current is followed by the assertion that the first buffer is current, its unread input is exactly the rest of its content, the start condition is unchanged, and (second-step variant) scanning resumes with the right token; all memory is released after deleting the user's buffers and yylex_destroy.",
             note="two live buffers; contents NUL-free; deeper nesting outside the bound. " + TRUSTED,
             technique="bounded model checking (cbmc, SAT) of buffer API histories against a per-buffer stream model", design="4/C11"),
 'C13': dict(text="The C01/C04/C11/C03 harnesses re-run with cbmc's pointer, bounds, pointer-primitive, signed-overflow, shift, division and free()/realloc() precondition checks enabled, exact-size user buffers and allocator blocks, all table modes incl. -Cf/-CF 8-bit, inputs with up to two NUL bytes; an allocation counter proves everything obtained through yyalloc/yyrealloc is released after deleting user buffers and yylex_destroy.",
             note="bounded inputs/histories as in the individual harnesses. " + TRUSTED,
             technique="bounded model checking (cbmc pointer/bounds/overflow instrumentation, SAT) of generated scanners with exact-size objects", design="4/C13"),
 'C14': dict(text="Buffer-API histories in which the k-th allocation request fails, k symbolic: the only outcomes accepted are the fatal-error hook or (reentrant) a non-zero return of yylex_init with errno ENOMEM; reaching the end of the history with a failed allocation, or using the failed block (cbmc pointer checks), is a violation.",
             note="single failure per run; read errors/EINTR of the generated yyread() are checked only if evidence lists the readfail obligations. " + TRUSTED,
             technique="bounded model checking (cbmc, SAT) with a symbolic failing-allocation index", design="4/C14"),
 'C02': dict(text="Every corpus rule set is generated under a matrix of table (-C, -Ce, -Cm, -Cem, -Cf, -CF, -Cfe, -CFe, -Ca*), 7/8-bit, -I/-B, %array/%pointer and API (non-reentrant C, reentrant C, c99) configurations; each generated file must compile, and the solver proves each equal to the same independent reference (E2 automaton walk, E1 yylex step), which implies pairwise equality. Unsupported combinations must be refused with the documented message (real binary).",
             note="C++ class back end not verified (cbmc cannot parse <iostream>); quick tier checks a rotating third of the matrix per rule set; serialized tables are C15. " + TRUSTED,
             technique="bounded model checking (cbmc, SAT) of scanners generated under each option set against one reference matcher", design="4/C02"),
 'C04': dict(text="Input bytes are unconstrained (0..255) in every query; dedicated rule sets match or do not match NUL and high bytes; E1 allows up to two NUL bytes at any position of the input in every table mode, -I and -B, %array, reentrant and c99; 7-bit scanners are proved equal on inputs < 128; refusal of 8-bit patterns in 7-bit scanners is observed on the real binary.",
             note="NUL relative to buffer refills and pushed-back text is exercised by the C03/C08 harnesses. " + TRUSTED,
             technique="bounded model checking (cbmc, SAT) of generated scanners on unconstrained bytes incl. NUL", design="4/C04"),
 'C05': dict(text="The start condition and the line-start flag are solver variables in every E1/E2 query over rule sets mixing %s/%x, <*>, lists and nested scopes: the rule selected (and the automaton state) must be the one the manual's activation rule gives, computed by the independent reference; the condition is unchanged by scanning.",
             note="condition-stack histories (push/pop/top) are checked by the history harness when present in this revision (see evidence). " + TRUSTED,
             technique="bounded model checking (cbmc, SAT) with symbolic start condition against a reference computing rule activation from the manual", design="4/C05"),
 'C06': dict(text="For rule sets using ^, $ and r/s (fixed and variable head and trail, competing rules, '|' actions) the solver proves for all inputs up to the bound and both values of the line-start flag: the rule selected competes with the length of r followed by s, yytext is the head of a valid split, the scan position is behind the head, and the line-start flag after the token is 'last byte was a newline'.",
             note="rule sets for which flex prints 'dangerous trailing context' are excluded, as the property states. " + TRUSTED,
             technique="bounded model checking (cbmc, SAT) of generated scanners with symbolic beginning-of-line flag against a reference with head/trail split", design="4/C06"),
})
NA = {}

def main():
    props = [json.loads(l)['id'] for l in open(os.path.join(HERE, 'properties.jsonl'))]
    checks = []
    for p in props:
        if p not in CLAIMS:
            continue
        c = CLAIMS[p]
        checks.append(dict(property_id=p, quick_cmd='./check %s --tier quick' % p,
                           thorough_cmd='./check %s --tier thorough' % p,
                           evidence_file='evidence/%s.json' % p,
                           replay_cmd_template='./check %s --replay {path}' % p,
                           engine='cbmc-harness',
                           level_claimed=dict(category='model_checking', text=c['text'], design_ref=c['design']),
                           level_note=c['note'], technique=c['technique']))
    man = dict(version=1,
               setup_cmd='python3 -c "import sys; sys.path.insert(0, \'.\'); import vp.core, vp.corpus; vp.corpus.load()" && cbmc --version >/dev/null && goto-cc --version >/dev/null',
               hooks=dict(guard='WESTES_FLEX_VERIF', enable='checks build a scratch copy with CPPFLAGS=-DWESTES_FLEX_VERIF (no hook is currently needed: harnesses #include the generated scanner or link the real .c files)',
                          baseline_off_cmd='./tools/run_baseline.sh', source_commits=[], add_only=True),
               engines=[dict(name='cbmc-harness', path='vp/', serves_properties=sorted(CLAIMS),
                             kind_free_text='bounded symbolic checking (cbmc 6.11 / SAT) of the generated scanners and of generator translation units, rebuilt from /repo on every run')],
               checks=checks,
               notes='See DESIGN.md. Exit status: 0 held on everything explored; 1 + VIOLATION line for a counterexample that replays natively and is not a listed known finding; 2 machinery problem.',
               not_applicable=[dict(property_id=p, reason=NA.get(p, 'check not built yet (work in progress; see DESIGN.md section 9 for the order of construction)')) for p in props if p not in CLAIMS])
    with open(os.path.join(HERE, 'MANIFEST.json'), 'w') as fh:
        json.dump(man, fh, indent=1)
    print('MANIFEST.json: %d checks, %d not_applicable' % (len(checks), len(man['not_applicable'])))

if __name__ == '__main__':
    main()
