#!/usr/bin/env python3
"""Regenerates MANIFEST.json from the table below (kept valid at all times)."""
import json, os
HERE = os.path.dirname(os.path.dirname(os.path.abspath(__file__)))
TRUSTED = ("bounded: every query uses --unwinding-assertions; trusted base = cbmc 6.11/MiniSat, gcc+ASan/UBSan for native replay, "
           "vp/pattern.py+vp/spec.py (independent reference matcher), GNU m4, harness stubs listed in the evidence file")
CLAIMS = {
 'C01': dict(text="For every corpus rule set (all constructs of the documented pattern language) the solver proves the generated scanner equal to an independent reference: E2 = automaton reached through the scanner's own yy_get_previous_state() accepts the first matching rule and jams exactly when no rule is viable, for all byte strings up to depth 12/20; E1 = one yylex() step from an arbitrary start condition and line-start flag returns the longest-match/first-rule token with the right yytext/yyleng and leaves the scanner positioned behind it, for all inputs of length 0..4 (quick) / 0..6 (thorough).",
             note="programs quantifier = enumerated corpus, inputs quantifier = solver; tokens longer than the bound and rule sets outside the corpus are outside the claim. " + TRUSTED,
             technique="bounded model checking (cbmc, SAT) of the generated scanner against a generated bit-parallel reference matcher", design="4/C01"),
}
CLAIMS.update({
 'C02': dict(text="Every corpus rule set is generated under a matrix of table (-C, -Ce, -Cm, -Cem, -Cf, -CF, -Cfe, -CFe, -Ca*), 7/8-bit, -I/-B, %array/%pointer and API (non-reentrant C, reentrant C, c99) configurations; each generated file must compile, and the solver proves each equal to the same independent reference (E2 automaton walk, E1 yylex step), which implies pairwise equality. Unsupported combinations must be refused with the documented message (real binary).",
             note="C++ class back end not verified (cbmc cannot parse <iostream>); quick tier checks a rotating third of the matrix per rule set; serialized tables are C15. " + TRUSTED,
             technique="bounded model checking (cbmc, SAT) of scanners generated under each option set against one reference matcher", design="4/C02"),
 'C04': dict(text="Input bytes are unconstrained (0..255) in every query; dedicated rule sets match or do not match NUL and high bytes; E1 allows up to two NUL bytes at any position of the input in every table mode, -I and -B, %array, reentrant and c99; 7-bit scanners are proved equal on inputs < 128; refusal of 8-bit patterns in 7-bit scanners is observed on the real binary.",
             note="NUL relative to buffer refills and pushed-back text is exercised by the C03/C08 harnesses. " + TRUSTED,
             technique="bounded model checking (cbmc, SAT) of generated scanners on unconstrained bytes incl. NUL", design="4/C04"),
 'C05': dict(text="The start condition and the line-start flag are solver variables in every E1/E2 query over rule sets mixing %s/%x, <*>, lists and nested scopes: the rule selected (and the automaton state) must be the one the manual's activation rule gives, computed by the independent reference; the condition is unchanged by scanning.",
             note="condition-stack histories (push/pop/top) are checked by the history harness when present in this revision (see evidence). " + TRUSTED,
             technique="bounded model checking (cbmc, SAT) with symbolic start condition against a reference computing rule activation from the manual", design="4/C05"),
 'C06': dict(text="For rule sets using ^, $ and r/s (fixed and variable head and trail, competing rules, '|' actions) the solver proves for all inputs up to the bound and both values of the line-start flag: the rule selected competes with the length of r followed by s, yytext is the head of a valid split, the scan position is behind the head, and the line-start flag after the token is 'last byte was a newline'.",
             note="rule sets for which flex prints 'dangerous trailing context' are excluded, as the property states. " + TRUSTED,
             technique="bounded model checking (cbmc, SAT) of generated scanners with symbolic beginning-of-line flag against a reference with head/trail split", design="4/C06"),
})
NA = {}

def main():
    props = [json.loads(l)['id'] for l in open(os.path.join(HERE, 'properties.jsonl'))]
    checks = []
    for p in props:
        if p not in CLAIMS:
            continue
        c = CLAIMS[p]
        checks.append(dict(property_id=p, quick_cmd='./check %s --tier quick' % p,
                           thorough_cmd='./check %s --tier thorough' % p,
                           evidence_file='evidence/%s.json' % p,
                           replay_cmd_template='./check %s --replay {path}' % p,
                           engine='cbmc-harness',
                           level_claimed=dict(category='model_checking', text=c['text'], design_ref=c['design']),
                           level_note=c['note'], technique=c['technique']))
    man = dict(version=1,
               setup_cmd='python3 -c "import sys; sys.path.insert(0, \'.\'); import vp.core, vp.corpus; vp.corpus.load()" && cbmc --version >/dev/null && goto-cc --version >/dev/null',
               hooks=dict(guard='WESTES_FLEX_VERIF', enable='checks build a scratch copy with CPPFLAGS=-DWESTES_FLEX_VERIF (no hook is currently needed: harnesses #include the generated scanner or link the real .c files)',
                          baseline_off_cmd='./tools/run_baseline.sh', source_commits=[], add_only=True),
               engines=[dict(name='cbmc-harness', path='vp/', serves_properties=sorted(CLAIMS),
                             kind_free_text='bounded symbolic checking (cbmc 6.11 / SAT) of the generated scanners and of generator translation units, rebuilt from /repo on every run')],
               checks=checks,
               notes='See DESIGN.md. Exit status: 0 held on everything explored; 1 + VIOLATION line for a counterexample that replays natively and is not a listed known finding; 2 machinery problem.',
               not_applicable=[dict(property_id=p, reason=NA.get(p, 'check not built yet (work in progress; see DESIGN.md section 9 for the order of construction)')) for p in props if p not in CLAIMS])
    with open(os.path.join(HERE, 'MANIFEST.json'), 'w') as fh:
        json.dump(man, fh, indent=1)
    print('MANIFEST.json: %d checks, %d not_applicable' % (len(checks), len(man['not_applicable'])))

if __name__ == '__main__':
    main()
