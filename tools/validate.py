#!/usr/bin/env python3
"""Validates MANIFEST.json and evidence/*.json against the schemas (run with python3-vt)."""
import json, sys, os, glob
import jsonschema
V = os.path.dirname(os.path.dirname(os.path.abspath(__file__)))
man = json.load(open(os.path.join(V, 'MANIFEST.json')))
jsonschema.validate(man, json.load(open('/root/.vp/MANIFEST.schema.json')))
es = json.load(open('/root/.vp/EVIDENCE.schema.json'))
bad = 0
for c in man['checks']:
    p = os.path.join(V, c['evidence_file'])
    if not os.path.exists(p):
        print('MISSING', p); bad += 1; continue
    try:
        ev = json.load(open(p))
        jsonschema.validate(ev, es)
        if ev['level'] != c['level_claimed']['category']:
            print('LEVEL MISMATCH', p, ev['level'], c['level_claimed']['category']); bad += 1
        print('ok', c['property_id'], ev['tier'], ev['coverage'].get('status_counts'), 'violations', ev.get('violations'))
    except Exception as e:
        print('INVALID', p, str(e)[:200]); bad += 1
ids = [json.loads(l)['id'] for l in open(os.path.join(V, 'properties.jsonl'))]
claimed = set(c['property_id'] for c in man['checks']); na = set(x['property_id'] for x in man.get('not_applicable', []))
for i in ids:
    if i not in claimed and i not in na: print('UNACCOUNTED', i); bad += 1
sys.exit(1 if bad else 0)
