#!/usr/bin/env python3
"""usage: mkmeta.py <seed-id> <property> <change> <needs>"""
import json, sys
sid, prop, change, needs = sys.argv[1:5]
json.dump({"seed": sid, "property": prop, "change": change, "needs_to_manifest": needs,
           "confirmed_by": "tools/confirm_seed.sh: demo passes on the unchanged tree, fails on the patched tree; patched tree builds and passes 257/257 tests",
           "produced_by": "sub-agent given only the property text and a scratch worktree (no access to /verif)"},
          open('/verif/seeded/%s/meta.json' % sid, 'w'), indent=1)
