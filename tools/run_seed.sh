#!/bin/sh
# usage: run_seed.sh <seed-id> <check-id> [extra check args]  -> runs the check against a patched copy of /repo
ID=$1; CHK=$2; shift 2
D=/var/tmp/seedrepo_${ID}_$CHK
rm -rf $D; mkdir -p $D
rsync -a --exclude .git /repo/ $D/
( cd $D && patch -p1 -s < /verif/seeded/$ID/patch.diff ) || { echo "patch failed"; exit 2; }
cd /verif
VP_REPO=$D VP_EVIDENCE_DIR=/var/tmp/seed_evidence_${ID}_$CHK VP_REPLAY_DIR=/var/tmp/seed_replays ./check $CHK "$@" > /var/tmp/seedrun_${ID}_${CHK}.log 2>&1
echo "seed=$ID check=$CHK exit=$? $(grep -c '^VIOLATION' /var/tmp/seedrun_${ID}_${CHK}.log) violations"
rm -rf $D /var/tmp/seed_evidence_${ID}_$CHK
