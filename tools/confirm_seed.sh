#!/bin/sh
# usage: confirm_seed.sh <seed-id> <worktree>   copies seed files to /verif/seeded/<seed-id>/ and confirms:
#  (1) unchanged tree: demo passes   (2) patched tree: builds, test suite passes, demo fails
set -u
ID=$1; WT=$2
S=/verif/seeded/$ID
mkdir -p $S
cp $WT/seed/patch.diff $S/patch.diff
for f in $WT/seed/*; do case "$f" in */patch.diff) ;; *) cp -r "$f" $S/ ;; esac; done
D=$(mktemp -d /var/tmp/seedchk.XXXXXX)
trap 'rm -rf "$D"' EXIT
rsync -a --exclude .git /repo/ $D/
cd $D
make -C src clean >/dev/null 2>&1; make -C src -j16 flex >/dev/null 2>&1 || { echo "BASE BUILD FAILED"; exit 2; }
mkdir -p seed; cp -r $S/* seed/
( cd seed && sh ./demo.sh >/dev/null 2>&1 ); BASE=$?
patch -p1 -s < $S/patch.diff || { echo "PATCH DOES NOT APPLY"; exit 2; }
make -C src -j16 flex >/dev/null 2>&1 || { echo "PATCHED BUILD FAILED"; exit 2; }
( cd seed && sh ./demo.sh >/dev/null 2>&1 ); PATCHED=$?
make -C tests clean >/dev/null 2>&1; SUM=$(make -C tests check -j12 2>&1 | grep -E '^# (PASS|FAIL|ERROR)' | tr '\n' ' ')
echo "seed=$ID demo_on_base=$BASE demo_on_patched=$PATCHED tests: $SUM"
