"""Corpus of rule sets, written in flex's input syntax without actions.

Each entry: (name, tags, text[, flags]).  Markers after a pattern:
'|' = the documented '|' action.  Tags select entries per property.
"""

ENTRIES = []


def E(name, tags, text, flags=()):
    ENTRIES.append((name, set(tags.split()), text, tuple(flags)))


# --- literals, escapes, quoting ---------------------------------------------
E('lit1', 'basic e1 small', r'''
%%
a+b
ab*
[0-9]+
.|\n
''')

E('escapes', 'basic esc e1 8bit', r'''
%%
\n\t
\x41\102
\0
\x7f\377
\a\b\f\r\v
\.\*\+\?\|\(\)\[\]\{\}\\\"\/
\101+
''')

E('octhex', 'esc nul 8bit', r'''
%%
\1
\12
\123
\x1
\x12
\x9z
\200\201
\xff+
''')

E('quoted', 'basic quote e1', r'''
%%
"ab*c"
"[x]"+
"a\"b"
"\n\x41"
"(?i:q)"
x"y z"w
''')

E('quoted2', 'quote', r'''
%%
"/*"
"*/"
"<<EOF>>"
"{D}"
"^a$"
"|"
''')

# --- character classes ------------------------------------------------------
E('ccl1', 'ccl e1', r'''
%%
[abc]+
[x-z0-3]
[^a-z\n]
[-a]
[a-]
[\]\\]
[\x00-\x1f]
''')

E('ccl2', 'ccl nul 8bit', r'''
%%
[^\x00-\x7f]+
[\200-\377]{2}
[^a]
[\0]
[^\0\n]x
''')

E('ccl_esc', 'ccl esc', r'''
%%
[\n\t ]+
[\x41-\x5a]
[\101-\132_]
["']
[.*+?|(){}/^$<>]
[a\-z]
[\^a]
''')

E('posix1', 'ccl posix e1', r'''
%%
[[:alpha:]]+
[[:digit:]]+
[[:space:]]
[[:punct:]]
[[:cntrl:]]
''')

E('posix2', 'ccl posix', r'''
%%
[[:alnum:]_]+
[[:blank:]]+
[[:graph:]]
[[:print:]]
[[:xdigit:]]{3}
[[:lower:]][[:upper:]]
''')

E('posixneg', 'ccl posix', r'''
%%
[[:^alpha:]]x
[[:^digit:]]y
[[:^space:][:digit:]]z
[^[:alnum:]]w
[[:^punct:]]v
[[:^cntrl:]]u
''')

E('posixneg2', 'ccl posix', r'''
%%
[[:^alnum:]]a
[[:^blank:]]b
[[:^graph:]]c
[[:^lower:]]d
[[:^print:]]e
[[:^upper:]]f
[[:^xdigit:]]g
''')

E('cclops', 'ccl setop e1', r'''
%%
[a-z]{-}[aeiou]+
[a-c]{+}[x-z]
[[:alpha:]]{-}[[:lower:]]{-}[A-F]
[a-z]{-}[m-z]{+}[0-9]
''')

E('cclops_neg', 'ccl setop negop', r'''
%%
[^a-z]{-}[\n]x
[a-z]{-}[^a-f]y
[^0-9]{-}[^a-z]z
''')

E('cclunion_neg', 'ccl setop negunion', r'''
%%
[^a]{+}[b]x
[b]{+}[^a-y]y
''')

E('dot', 'basic dot nul', r'''
%%
a.c
.
\n
''')

# --- operators, precedence ---------------------------------------------------
E('ops1', 'ops e1', r'''
%%
foo|bar*
(foo|ba)r+
ab?c
(ab)?c
a(b|c)*d
''')

E('ops2', 'ops', r'''
%%
a|b|cd
(a|b)(c|d)
(a*)*b
(a+)+c
(a?)?d
((a))
''')

E('rep1', 'rep e1', r'''
%%
a{3}
b{2,}
c{1,3}
d{0,2}e
(xy){2}
[0-9]{2,3}z
''')

E('rep2', 'rep', r'''
%%
ab{2}
(ab){2}c
a{1}
a{2}{2}b
(a|b){2,3}c
x{0,1}y
''')

E('rep3', 'rep deep', r'''
%%
a{5}
b{3,5}
(c|d){4}
e{1,}f
g{4,}
''')

E('rep_posix', 'rep posixrep', r'''
%%
ab{2}
a(b{2})
xy{1,2}z
''', flags=['-X'])

E('rep_lex', 'rep posixrep', r'''
%option lex-compat
%%
ab{2}
cd{1,2}
''')

E('defs1', 'defs e1', r'''
D [0-9]
L [a-zA-Z_]
ID {L}({L}|{D})*
%%
{D}+
{ID}
{D}+"."{D}*
''')

E('defs2', 'defs', r'''
A a|b
B {A}c
C x{B}*y
%%
{A}
{B}d
{C}
{A}{2}
''')

E('defs_prec', 'defs', r'''
ALT foo|bar
%%
{ALT}z
q{ALT}
{ALT}+
''')

# --- flags -------------------------------------------------------------------
E('ci_opt', 'ci e1', r'''
%option caseless
%%
abc
[x-z]+
"Quo"
[[:upper:]]q
1[^a]
''')

E('ci_group', 'ci flags e1', r'''
%%
(?i:ab)c
(?i:a(?-i:b)c)
(?i:[d-f])+
x(?i:"yz")
''')

E('ci_flag', 'ci', r'''
%%
abc
k[^a-c]
[[:lower:]]{2}
''', flags=['-i'])

E('ci_setop', 'ci setop', r'''
%option caseless
%%
[a-z]{-}[aeiou]
[[:alpha:]]{-}[x]y
''')

E('sflag', 'flags dot nl', r'''
%%
(?s:a.b)
a.c
(?s:.)x
(?-s:.)y
''')

E('xflag', 'flags', r'''
%%
(?x: a b   c )
(?x:d /* comment */ e)
(?x:f" g"h)
(?x: [ x] | y )
''')

E('xflag2', 'flags', r'''
%%
(?xi: a b)
(?x:a (?-x:bc) d)
(?is:a.)
(?i-s:b.)
(?#comment)cd
e(?#x)f
''')

# --- ties, overlap, backing up ----------------------------------------------
E('ties', 'prio e1', r'''
%%
abc
[a-c]+
abcd
a
.|\n
''')

E('backup', 'prio e1 backup', r'''
%%
abcde
ab
x
''')

E('backup2', 'prio backup', r'''
%%
a(bc)*d
a
b
c
if
[a-z]+
''')

E('keywords', 'prio', r'''
%%
if
else
int
[a-z]+
[0-9]+
[ \t\n]+
.
''')

# --- start conditions ---------------------------------------------------------
E('sc1', 'sc e1', r'''
%x A
%s B
%%
a
<A>a+
<B>ab
<A,B>c
<*>d
<INITIAL>e
.|\n
''')

E('sc_scope', 'sc scope e1', r'''
%x X Y
%s S
%%
<X>{
p
q+
<Y>r
}
<S>{
s
}
<X,Y>{
t
}
u
<*>.|\n
''')

E('sc_nested', 'sc scope', r'''
%x A B C
%%
<A>{
<B>{
ab
}
a
}
<C>c
<*>{
z
}
x
''')

E('sc_many', 'sc', r'''
%s S1 S2 S3
%x X1 X2 X3
%%
<S1>a
<S2>aa
<S3>aaa
<X1>a+
<X2,S1>b
<X3,X1,S2>c
<INITIAL,X2>d
a{4}
''')

# --- anchors -----------------------------------------------------------------
E('bol1', 'bol e1', r'''
%%
^a
a
^b+
b
\n
.
''')

E('bol_sc', 'bol sc e1', r'''
%x A
%%
^foo
<A>^f
<A>fo
<*>^x
f
\n
''')

E('eol1', 'bol trail eol e1', r'''
%%
a$
a
ab$
\n
.
''')

E('boleol', 'bol trail eol', r'''
%%
^a$
^a
a$
a+
\n
''')

# --- trailing context ---------------------------------------------------------
E('tc_fixed_trail', 'trail e1', r'''
%%
a+/bc
a
b
c
''')

E('tc_min', 'trail e1', r'''
%%
a/b
a
b
''')

E('tc_fixed_head', 'trail e1', r'''
%%
ab/c+
ab
c
abc+d
''')

E('tc_both_fixed', 'trail', r'''
%%
ab/cd
abc
a
b
c
d
''')

E('tc_compete', 'trail e1', r'''
%%
a/bcd
ab
abc/x
[a-d]
''')

E('tc_bar', 'trail bar', r'''
%%
x |
y/z
z
w
''')

E('tc_var', 'trail vartrail', r'''
%%
a+/b+c
a
b
c
''')

E('tc_var2', 'trail vartrail', r'''
%%
(ab)+/(cd)*e
ab
cd
e
[a-e]
''')

E('tc_nl', 'trail eol nl', r'''
%%
[a-z]+$
[a-z]+/[ ]
[a-z]+
\n
[ ]
''')

# --- NUL and 8-bit -----------------------------------------------------------
E('nul1', 'nul e1', r'''
%%
a\0b
\0+
a
b
''')

E('nul_jam', 'nul e1 backup', r'''
%%
ab
abc\0d
[a-d]
''')

E('nul_class', 'nul ccl', r'''
%%
[^a]+
a
''')

E('nul_dot', 'nul dot', r'''
%%
x.y
x
.
''')

E('nul_only_default', 'nul', r'''
%%
ab
''')

E('high1', '8bit e1', r'''
%%
\xe9+
[\x80-\xbf][\xc0-\xff]
[^\x80-\xff]
''')

E('high2', '8bit', r'''
%%
\377\0
\376
[\0\377]x
''')

E('sevenbit', '7bit', r'''
%option 7bit
%%
[a-z]+
\x7f
[^a]
.|\n
''')

# --- EOF rules ----------------------------------------------------------------
E('eof1', 'eof e1', r'''
%x A
%s B
%%
<A><<EOF>>
<<EOF>>
a
<*>.|\n
''')

E('eof2', 'eof', r'''
%x A B
%%
<A,B><<EOF>>
<INITIAL><<EOF>>
x
''')

E('eof_star', 'eof', r'''
%x A
%s B
%%
<*><<EOF>>
q
''')

E('eof_x_unq', 'eof', r'''
%x A Q
%s B
%%
<A><<EOF>>
<<EOF>>
a
<*>.|\n
''')

E('eof_x_none', 'eof', r'''
%x Q
%s B
%%
<INITIAL><<EOF>>
<Q>q
a
''')

# --- '|' action ---------------------------------------------------------------
E('bar1', 'bar e1', r'''
%%
foo |
bar
baz |
qu+x |
z
.|\n
''')

# --- no catch-all: default rule -----------------------------------------------
E('default1', 'default e1', r'''
%%
ab
cd+
''')

E('default_sc', 'default sc', r'''
%x A
%%
a
<A>b
''')

E('nodefault_cov', 'nodefault', r'''
%option nodefault
%%
a+
[^a]
''')

E('nodefault_jam', 'nodefault jam', r'''
%option nodefault
%%
ab
''')

# --- REJECT scanners (tables with accepting lists) ------------------------------
E('rej1', 'reject', r'''
%option reject
%%
abc
ab
a
[a-c]+
.|\n
''')

E('rej_sc', 'reject sc', r'''
%option reject
%x A
%%
a+
<A>ab
<*>a
<*>.|\n
''')

# --- larger sets ----------------------------------------------------------------
E('c_like', 'big e1big', r'''
D [0-9]
L [a-zA-Z_]
H [a-fA-F0-9]
E [Ee][+-]?{D}+
%%
"/*"
auto
break
case
char
const
int
if
else
while
{L}({L}|{D})*
0[xX]{H}+
0{D}+
{D}+
{D}+{E}
{D}*"."{D}+({E})?
\"(\\.|[^\\"\n])*\"
">>="
"<<="
"+="
"->"
"&&"
"=="
[;{},:=()\[\].&!~\-+*/%<>^|?]
[ \t\v\n\f]
.
''')

E('many_classes', 'big ecs', r'''
%%
[a-c]x
[b-d]y
[c-e]z
[d-f]w
[e-g]v
[f-h]u
[g-i]t
[h-j]s
[i-k]r
[j-l]q
[^a-l]p
''')

# --- yylineno: rules that can match a newline in every documented way ----------------
E('ln_basic', 'lineno e1', r'''
%option yylineno
%%
\n
a\nb
[^x]y
x+
''')

E('ln_class', 'lineno e1', r'''
%option yylineno
%%
[a\n]+
[^ab]
[[:space:]]z
b
''')

E('ln_dot', 'lineno e1', r'''
%option yylineno
%%
(?s:a.)
(?s:.)q
b.
.
''')

E('ln_defs', 'lineno', r'''
%option yylineno
NL \n
WS [ \t\n]
%%
{NL}
a{WS}+b
"x\ny"
.
''')

E('ln_ops', 'lineno', r'''
%option yylineno
%%
[a-c]{-}[b]x
[\n]{+}[y]z
[^\n]{-}[q]w
(a|\n)(b|\n)
\n{2}
''')

E('ln_trail', 'lineno trail e1', r'''
%option yylineno
%%
a/\n
b$
c\n/d
e/\n\n
\n
.
''')

E('ln_tc_var', 'lineno trail e1', r'''
%option yylineno
%%
f/\n+
g/\n[ ]*h
i+/\n
j\n*/k
\n
.
''')

E('ln_bar', 'lineno bar e1', r'''
%option yylineno
%%
a\n |
b
c |
d\n
\n
.
''')

E('ln_ci', 'lineno ci', r'''
%option yylineno caseless
%%
[a\n]b
C\nd
.|\n
''')

E('ln_sc', 'lineno sc', r'''
%option yylineno
%x A
%%
a\n
<A>[^a]+
<A>a
<*>.|\n
''')

E('ln_none', 'nolineno e1', r'''
%%
\n
a\nb
.
''')

# --- rule sets for the history harnesses (no trailing context, no EOF rules) ------
E('h_words', 'hist', r'''
%%
abc
ab
a
[a-c]+
''')

E('h_min', 'hist', r'''
%%
ab
a
b
''')

E('h_nl', 'hist histnl', r'''
%option yylineno
%%
a\nb
[a\n]+
b
''')

E('h_sc', 'hist sc', r'''
%x A
%%
ab
<A>a+
<*>b
''')

# --- REJECT at per-rule action sites, fixed trailing context (no '|' sharing) --------
E('h_tc_both', 'histtc', r'''
%%
ab/c
abc
[a-c]+
[a-c]
''')

E('h_tc_vh', 'histtc', r'''
%%
a+/b
ab
[ab]
''')

E('h_tc_vt', 'histtc', r'''
%%
a/b+
abb
[ab]
''')

E('h_tc_eol', 'histtc', r'''
%%
a+$
a\n
a
''')

# --- 'rule cannot be matched' situations ------------------------------------------
E('w_shadow', 'warn e1', r'''
%%
[a-z]+
foo
bar[0-9]
[0-9]
5
.|\n
''')

E('w_sc', 'warn sc', r'''
%x A
%s B
%%
a
<A>a
<B>a
<A>b
<A>[a-b]
<*>.|\n
<A,B>\n
''')

E('w_bol', 'warn bol', r'''
%%
^ab
ab
^ab
^c
c
^[a-c]x
\n
.
''')

E('w_trail', 'warn trail', r'''
%%
ab/c
abc
ab/cd
a/bc
[a-d]
\n
''')

E('w_trail_mixed', 'warn trail', r'''
%%
[a-c]+
ab/[0-9]+
[0-9]+
abc
x?y*/z
xyz
\n
''')

E('w_trail_mixed_nodefault', 'warn trail nodefault', r'''
%option nodefault
%%
[a-c]+
ab/[0-9]+
[0-9]+
abc
''')

E('w_eq', 'warn', r'''
%%
a(b|c)
ab
ac
ad
a[b-d]
a.
''')

E('w_none', 'warn', r'''
%%
ab
a
b
''')

E('w_nodefault_ok', 'warn nodefault', r'''
%option nodefault
%%
a
[^a]
''')

E('w_nodefault_hit', 'warn nodefault', r'''
%option nodefault
%%
a+
b
''')

# --- '|' action followed by every shape of trailing context -------------------------
E('tc_bar_fv', 'trail bar vartrail', r'''
%%
abcd |
ab/c+
c
.
\n
''')

E('tc_bar_vf', 'trail bar vartrail', r'''
%%
xyz |
a+/bc
b
c
.|\n
''')

E('tc_bar_ff', 'trail bar vartrail', r'''
%%
pqr |
ab/cd
[a-d]
.|\n
''')

E('tc_bar_eol', 'trail bar eol vartrail', r'''
%%
foo |
bar$
ba
\n
.
''')

E('tc_bar_chain', 'trail bar vartrail', r'''
%%
k |
lm |
n/o+
o
.|\n
''')

E('nul_end', 'nul e1 nulend', r'''
%%
a\0
a\0bc
.|\n
''')

E('nul_end2', 'nul e1 nulend', r'''
%%
x[^y]
x\0\0z
\0+q
.|\n
''')

# --- NUL sharing an equivalence class with other bytes (class numbered last / first; 2, 3, 4 classes) ---
E('nul_share4', 'nul 8bit e1 nulshare', r'''
%%
[a-z]+
[0-9]+
[\xf0-\xff\0]+
[^a-z0-9\xf0-\xff\0]
''')

E('nul_share2', 'nul 8bit e1 nulshare', r'''
%%
[\x80-\xff\0]+
[^\x80-\xff\0]
''')

E('nul_share_first', 'nul e1 nulshare', r'''
%%
[\0\x01-\x1f]+x
[\0\x01-\x1f]
[^\0\x01-\x1f]
''')

# --- an automaton with more than 128 states (16-bit table elements) ----------------
E('kw_many', 'big bigdfa', r'''
%%
abstract
boolean
continue
default
extends
finally
implements
interface
native
package
private
protected
return
static
synchronized
throws
transient
volatile
while
[a-z]+
[0-9]+
[ \t\n]+
.
''')

E('w_vartrail_nodefault', 'warnx vartrail nodefault', r'''
%option nodefault
%%
[a-z]+/[0-9]+x
[a-z]+
[^a-z]
''')
