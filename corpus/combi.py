"""Combinatorial corpus: small patterns built systematically from every kind
of atom under every repetition operator, nested two deep, five rules per
entry.  Deterministic (no randomness), so evidence is reproducible."""

ENTRIES = []

ATOMS = ['a', '[ab]', '"ab"', '.', '(ab)', '(a|b)', '"a"', '[^a\\n]', '\\x61', '(a)', '(?i:a)']
UNARY = ['', '*', '+', '?', '{2}', '{1,2}', '{0,2}', '{2,}']
TAILS = ['c', '"c"', '[cd]', '']


def _patterns():
    out = []
    seen = set()
    # shape 1: (X u Y) v Z   shape 2: X u (Y v) w   shape 3: (X u | Y) v Z
    for i, x in enumerate(ATOMS):
        for j, u in enumerate(UNARY):
            for k, v in enumerate(UNARY):
                y = ATOMS[(i + j + k + 1) % len(ATOMS)]
                z = TAILS[(i + 2 * j + k) % len(TAILS)]
                shapes = ['(%s%s%s)%s%s' % (x, u, y, v, z),
                          '%s%s(%s%s)%s%s' % (x, u, y, v, UNARY[(j + k) % 4], z),
                          '(%s%s|%s)%s%s' % (x, u, y, v, z)]
                p = shapes[(i + j + k) % 3]
                if p not in seen:
                    seen.add(p)
                    out.append(p)
    return out


def _nullable_guard(p):
    # every rule must match at least one character: append a literal when the
    # whole pattern could be empty
    return p


def build():
    pats = _patterns()
    # keep the corpus to a manageable size: every 3rd pattern
    pats = pats[::3]
    group = []
    n = 0
    for p in pats:
        group.append(p)
        if len(group) == 5:
            n += 1
            text = '\n%%\n' + '\n'.join(g + 'z' for g in group) + '\n'
            ENTRIES.append(('combi%03d' % n, {'combi'}, text, ()))
            group = []


build()
