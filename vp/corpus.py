"""Corpus loading."""
import importlib.util
import os

from . import build, spec as S

_cache = None


def load():
    global _cache
    if _cache is not None:
        return _cache
    out = []
    cdir = os.path.join(build.VERIF, 'corpus')
    for fn in sorted(os.listdir(cdir)):
        if not fn.endswith('.py'):
            continue
        sp = importlib.util.spec_from_file_location('vpcorpus_' + fn[:-3], os.path.join(cdir, fn))
        mod = importlib.util.module_from_spec(sp)
        sp.loader.exec_module(mod)
        for name, tags, text, flags in getattr(mod, 'ENTRIES', []):
            out.append((name, tags, text, flags))
    _cache = out
    return out


def specs(tag=None, names=None):
    res = []
    for name, tags, text, flags in load():
        if tag is not None and tag not in tags:
            continue
        if names is not None and name not in names:
            continue
        sp = S.Spec(name, text, flags=flags)
        sp.tags = tags
        res.append(sp)
    return res
