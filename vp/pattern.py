"""Independent reading of the flex pattern language (doc/flex.texi, "Patterns").

This module does NOT share code or tables with flex.  It parses the pattern
text of one rule into an AST over byte sets and gives the denotation used by
the reference matcher (vp/oracle.py).  Part of the trusted base.

AST nodes (tuples):
  ('set', mask)          one byte out of the 256-bit mask
  ('cat', [n...])        concatenation (empty list = empty string)
  ('alt', [n...])
  ('star', n) ('plus', n) ('opt', n)
  ('rep', n, lo, hi)     hi None = unbounded; lo >= 1 or (lo == 0 and hi >= 1)
"""

ALL = (1 << 256) - 1


def bit(c):
    return 1 << c


def mask_of(chars):
    m = 0
    for c in chars:
        m |= 1 << c
    return m


def members(mask):
    return [c for c in range(256) if mask >> c & 1]


def _rng(a, b):
    return mask_of(range(ord(a), ord(b) + 1))


# The C locale's <ctype.h> classification, spelled out (ISO C 7.4, "C" locale).
UPPER = _rng('A', 'Z')
LOWER = _rng('a', 'z')
DIGIT = _rng('0', '9')
ALPHA = UPPER | LOWER
ALNUM = ALPHA | DIGIT
BLANK = mask_of([0x20, 0x09])
SPACE = mask_of([0x20, 0x09, 0x0a, 0x0b, 0x0c, 0x0d])
CNTRL = mask_of(range(0, 32)) | bit(127)
PRINT = mask_of(range(32, 127))
GRAPH = mask_of(range(33, 127))
PUNCT = GRAPH & ~ALNUM
XDIGIT = DIGIT | _rng('a', 'f') | _rng('A', 'F')
CTYPE = dict(alnum=ALNUM, alpha=ALPHA, blank=BLANK, cntrl=CNTRL, digit=DIGIT,
             graph=GRAPH, lower=LOWER, print=PRINT, punct=PUNCT, space=SPACE,
             upper=UPPER, xdigit=XDIGIT)


def swapcase_mask(m):
    r = 0
    for c in members(m & ALPHA):
        r |= bit(c ^ 0x20)
    return r


class PatternError(Exception):
    pass


class Flags:
    def __init__(self, ci=False, dotall=False, xws=False):
        self.ci, self.dotall, self.xws = ci, dotall, xws

    def copy(self):
        return Flags(self.ci, self.dotall, self.xws)


class Parser:
    """Parses one rule's pattern (without any <start-condition> prefix)."""

    def __init__(self, text, defs=None, caseless=False, posix_repeat=False,
                 lex_compat=False, csize=256):
        if isinstance(text, str):
            text = text.encode('latin-1')
        self.s = text
        self.i = 0
        self.defs = defs or {}
        self.flags = [Flags(ci=caseless)]
        self.posix_repeat = posix_repeat or lex_compat
        self.lex_compat = lex_compat
        self.csize = csize
        self.universe = mask_of(range(csize))
        self.expansions = 0

    # -- helpers ---------------------------------------------------------
    @property
    def f(self):
        return self.flags[-1]

    def peek(self, k=0):
        j = self.i + k
        return self.s[j] if j < len(self.s) else None

    def startswith(self, b):
        return self.s.startswith(b, self.i)

    def err(self, msg):
        raise PatternError('%s at offset %d of %r' % (msg, self.i, self.s))

    def skip_ws(self):
        """Inside (?x: ) whitespace and C comments are ignored."""
        while self.f.xws and self.i < len(self.s):
            c = self.s[self.i]
            if c in b' \t\r\n':
                self.i += 1
            elif self.startswith(b'/*'):
                e = self.s.find(b'*/', self.i + 2)
                if e < 0:
                    self.err('unterminated comment')
                self.i = e + 2
            else:
                break

    def at_end(self):
        self.skip_ws()
        if self.i >= len(self.s):
            return True
        if not self.f.xws and self.s[self.i] in b' \t\n':
            return True
        return False

    def lit(self, c):
        """A literal byte outside classes (case folding per manual: -i / (?i:)
        makes letters match either case)."""
        m = bit(c)
        if self.f.ci and (m & ALPHA):
            m |= bit(c ^ 0x20)
        return ('set', m)

    def escape(self):
        """At a backslash; returns the byte value (manual: ANSI-C escapes,
        \\123 octal, \\x2a hex, otherwise the character itself)."""
        assert self.s[self.i] == 0x5c
        self.i += 1
        c = self.peek()
        if c is None:
            self.err('dangling backslash')
        simple = {ord('b'): 8, ord('f'): 12, ord('n'): 10, ord('r'): 13,
                  ord('t'): 9, ord('a'): 7, ord('v'): 11}
        if c in simple:
            self.i += 1
            return simple[c]
        if 0x30 <= c <= 0x37:
            j = self.i
            while j < len(self.s) and j < self.i + 3 and 0x30 <= self.s[j] <= 0x37:
                j += 1
            v = int(self.s[self.i:j], 8)
            self.i = j
            return v & 0xff
        if c == ord('x') and self.peek(1) is not None and chr(self.peek(1)) in '0123456789abcdefABCDEF':
            j = self.i + 1
            while j < len(self.s) and j < self.i + 3 and chr(self.s[j]) in '0123456789abcdefABCDEF':
                j += 1
            v = int(self.s[self.i + 1:j], 16)
            self.i = j
            return v
        self.i += 1
        return c

    # -- grammar ---------------------------------------------------------
    def parse_rule(self):
        """rule := ['^'] re ['/' re | '$']   ; returns dict"""
        bol = False
        if self.peek() == ord('^'):
            bol = True
            self.i += 1
        head = self.parse_re(top=True)
        trail = None
        if self.peek() == ord('/') and not self.at_end():
            self.i += 1
            trail = self.parse_re(top=True)
        if self.peek() == ord('$') and self._dollar_is_anchor():
            if trail is not None:
                self.err('trailing context used twice')
            self.i += 1
            trail = ('set', bit(10))
        if not self.at_end():
            self.err('junk after pattern')
        return dict(bol=bol, head=head, trail=trail)

    def _dollar_is_anchor(self):
        n = self.peek(1)
        return n is None or n in b' \t\n'

    def parse_re(self, top=False):
        alts = [self.parse_series(top)]
        while True:
            self.skip_ws()
            if self.peek() == ord('|'):
                self.i += 1
                alts.append(self.parse_series(top))
            else:
                break
        return alts[0] if len(alts) == 1 else ('alt', alts)

    def _series_end(self, top):
        self.skip_ws()
        c = self.peek()
        if c is None:
            return True
        if c in b'|)':
            return True
        if c == ord('/') and not (self.f.xws and self.startswith(b'/*')):
            return True
        if not self.f.xws and c in b' \t\n':
            return True
        if c == ord('$') and self._dollar_is_anchor() and len(self.flags) == 1:
            return True
        return False

    def parse_series(self, top):
        items = []
        while not self._series_end(top):
            if self.posix_repeat and self.peek() == ord('{') and self._is_repeat():
                lo, hi = self.parse_repeat()
                if not items:
                    self.err('repeat of nothing')
                whole = items[0] if len(items) == 1 else ('cat', items)
                items = [self.mkrep(whole, lo, hi)]
                continue
            items.append(self.parse_singleton())
        if len(items) == 1:
            return items[0]
        return ('cat', items)

    def _is_repeat(self):
        n = self.peek(1)
        return n is not None and 0x30 <= n <= 0x39

    def parse_repeat(self):
        assert self.peek() == ord('{')
        e = self.s.find(b'}', self.i)
        if e < 0:
            self.err('missing }')
        body = self.s[self.i + 1:e].decode('latin-1')
        self.i = e + 1
        if ',' in body:
            a, b = body.split(',', 1)
            lo = int(a)
            hi = int(b) if b.strip() != '' else None
        else:
            lo = hi = int(body)
        return lo, hi

    def mkrep(self, n, lo, hi):
        if hi is not None and (lo > hi or hi <= 0):
            self.err('bad iteration values')
        if hi is None and lo <= 0:
            self.err('iteration value must be positive')
        return ('rep', n, lo, hi)

    def parse_singleton(self):
        n = self.parse_atom()
        while True:
            self.skip_ws()
            c = self.peek()
            if c == ord('*'):
                self.i += 1
                n = ('star', n)
            elif c == ord('+'):
                self.i += 1
                n = ('plus', n)
            elif c == ord('?'):
                self.i += 1
                n = ('opt', n)
            elif c == ord('{') and self._is_repeat() and not self.posix_repeat:
                lo, hi = self.parse_repeat()
                n = self.mkrep(n, lo, hi)
            else:
                return n

    def parse_atom(self):
        self.skip_ws()
        c = self.peek()
        if c is None:
            self.err('unexpected end')
        ch = chr(c)
        if ch == '.':
            self.i += 1
            m = self.universe if self.f.dotall else self.universe & ~bit(10)
            return ('set', m)
        if ch == '[':
            return ('set', self.parse_fullccl())
        if ch == '"':
            return self.parse_string()
        if ch == '(':
            return self.parse_group()
        if ch == '{':
            if self.startswith(b'{-}') or self.startswith(b'{+}'):
                self.err('class operator without class')
            e = self.s.find(b'}', self.i)
            if e < 0:
                self.err('bad {')
            name = self.s[self.i + 1:e].decode('latin-1')
            if name not in self.defs:
                self.err('undefined definition {%s}' % name)
            self.expansions += 1
            if self.expansions > 200:
                self.err('definition recursion')
            d = self.defs[name]
            if isinstance(d, str):
                d = d.encode('latin-1')
            d = d.rstrip(b' \t')
            if self.lex_compat or d.startswith(b'^') or d.endswith(b'$'):
                rep = d
            else:
                rep = b'(' + d + b')'
            self.s = self.s[:self.i] + rep + self.s[e + 1:]
            return self.parse_atom()
        if ch == '\\':
            return self.lit(self.escape())
        if ch in '*+?|)':
            self.err('unexpected operator %s' % ch)
        self.i += 1
        return self.lit(c)

    def parse_string(self):
        assert self.peek() == ord('"')
        self.i += 1
        items = []
        while True:
            c = self.peek()
            if c is None or c == 10:
                self.err('missing quote')
            if c == ord('"'):
                self.i += 1
                break
            if c == 0x5c:
                items.append(self.lit(self.escape()))
            else:
                self.i += 1
                items.append(self.lit(c))
        return ('cat', items)

    def parse_group(self):
        assert self.peek() == ord('(')
        self.i += 1
        nf = self.f.copy()
        if self.startswith(b'?#') and not self.posix_repeat:
            e = self.s.find(b')', self.i)
            if e < 0:
                self.err('unterminated (?#')
            self.i = e + 1
            return ('cat', [])
        if self.peek() == ord('?') and not self.posix_repeat:
            self.i += 1
            on = True
            while True:
                c = self.peek()
                if c is None:
                    self.err('bad (? group')
                self.i += 1
                ch = chr(c)
                if ch == ':':
                    break
                if ch == '-':
                    on = False
                elif ch == 'i':
                    nf.ci = on
                elif ch == 's':
                    nf.dotall = on
                elif ch == 'x':
                    nf.xws = on
                else:
                    self.err('bad (? flag')
        self.flags.append(nf)
        n = self.parse_re()
        self.skip_ws()
        if self.peek() != ord(')'):
            self.err('missing )')
        self.flags.pop()
        self.i += 1
        return n

    # -- character classes -----------------------------------------------
    def parse_fullccl(self):
        m = self.parse_braceccl()
        while True:
            self.skip_ws()
            if self.startswith(b'{-}'):
                self.i += 3
                self.skip_ws()
                m = m & ~self.parse_braceccl()
            elif self.startswith(b'{+}'):
                self.i += 3
                self.skip_ws()
                m = m | self.parse_braceccl()
            else:
                return m & self.universe

    def parse_braceccl(self):
        if self.peek() != ord('['):
            self.err('expected [')
        self.i += 1
        neg = False
        if self.peek() == ord('^'):
            neg = True
            self.i += 1
        m = 0
        first = True
        while True:
            c = self.peek()
            if c is None or c == 10:
                self.err('bad character class')
            if c == ord(']') and not first:
                self.i += 1
                break
            if c == ord(']') and first:
                # flex's pattern for a class requires at least one element
                self.err('empty class not in the documented syntax')
            first = False
            if self.startswith(b'[:'):
                e = self.s.find(b':]', self.i)
                if e < 0:
                    self.err('bad class expression')
                name = self.s[self.i + 2:e].decode('latin-1')
                self.i = e + 2
                negexp = name.startswith('^')
                if negexp:
                    name = name[1:]
                if name not in CTYPE:
                    self.err('bad character class expression')
                cm = CTYPE[name]
                if self.f.ci and name in ('upper', 'lower'):
                    if negexp:
                        self.err('[:^%s:] ambiguous when case-insensitive' % name)
                    cm = UPPER | LOWER
                if negexp:
                    cm = self.universe & ~cm
                m |= cm
                continue
            lo = self.escape() if c == 0x5c else self._take()
            if self.peek() == ord('-') and self.peek(1) is not None and self.peek(1) != ord(']'):
                self.i += 1
                c2 = self.peek()
                hi = self.escape() if c2 == 0x5c else self._take()
                if lo > hi:
                    self.err('negative range')
                r = mask_of(range(lo, hi + 1))
                if self.f.ci:
                    lo_c, hi_c = bool(bit(lo) & ALPHA), bool(bit(hi) & ALPHA)
                    if lo_c != hi_c or (lo_c and (bool(bit(lo) & LOWER) != bool(bit(hi) & LOWER))):
                        self.err('ambiguous range in case-insensitive scanner')
                    if not lo_c and (r & ALPHA) and (swapcase_mask(r) & ~r):
                        self.err('ambiguous range in case-insensitive scanner')
                    r |= swapcase_mask(r)
                m |= r
            else:
                r = bit(lo)
                if self.f.ci:
                    r |= swapcase_mask(r)
                m |= r
        m &= self.universe
        if neg:
            m = self.universe & ~m
        return m

    def _take(self):
        c = self.s[self.i]
        self.i += 1
        return c


def parse_rule(text, **kw):
    return Parser(text, **kw).parse_rule()


# ---------------------------------------------------------------------------
# Denotation: position (Glushkov) automaton

class Auto:
    """Position automaton of one regular expression.
    sets[p]   byte mask of position p
    first     bitmask of positions
    follow[p] bitmask of positions
    last      bitmask of positions
    nullable  bool
    """

    def __init__(self):
        self.sets = []
        self.follow = []
        self.first = 0
        self.last = 0
        self.nullable = False

    @property
    def npos(self):
        return len(self.sets)


def _expand(n):
    """Rewrite 'rep' and 'plus' into cat/opt/star copies."""
    k = n[0]
    if k == 'set':
        return n
    if k in ('cat', 'alt'):
        return (k, [_expand(x) for x in n[1]])
    if k in ('star', 'opt'):
        return (k, _expand(n[1]))
    if k == 'plus':
        x = _expand(n[1])
        return ('cat', [x, ('star', x)])
    if k == 'rep':
        x = _expand(n[1])
        lo, hi = n[2], n[3]
        items = [x] * lo
        if hi is None:
            items.append(('star', x))
        else:
            for _ in range(hi - lo):
                items.append(('opt', x))
        return ('cat', items)
    raise ValueError(k)


def build_auto(ast, maxpos=64):
    a = Auto()

    def go(n):
        """returns (nullable, first, last)"""
        k = n[0]
        if k == 'set':
            p = len(a.sets)
            if p >= maxpos:
                raise PatternError('pattern needs more than %d positions' % maxpos)
            a.sets.append(n[1])
            a.follow.append(0)
            return (False, 1 << p, 1 << p)
        if k == 'cat':
            nl, fi, la = True, 0, 0
            for x in n[1]:
                n2, f2, l2 = go(x)
                for p in _bits(la):
                    a.follow[p] |= f2
                if nl:
                    fi |= f2
                la = (la | l2) if n2 else l2
                nl = nl and n2
            return (nl, fi, la)
        if k == 'alt':
            nl, fi, la = False, 0, 0
            for x in n[1]:
                n2, f2, l2 = go(x)
                nl = nl or n2
                fi |= f2
                la |= l2
            return (nl, fi, la)
        if k == 'star':
            n2, f2, l2 = go(n[1])
            for p in _bits(l2):
                a.follow[p] |= f2
            return (True, f2, l2)
        if k == 'opt':
            n2, f2, l2 = go(n[1])
            return (True, f2, l2)
        raise ValueError(k)

    a.nullable, a.first, a.last = go(_expand(ast))
    return a


def _bits(m):
    p = 0
    while m:
        if m & 1:
            yield p
        m >>= 1
        p += 1


def auto_step(a, state, c):
    """state: (at_start, mask).  Returns new mask after byte c."""
    at_start, mask = state
    cand = 0
    if at_start:
        cand |= a.first
    for p in _bits(mask):
        cand |= a.follow[p]
    out = 0
    for q in _bits(cand):
        if a.sets[q] >> c & 1:
            out |= 1 << q
    return out


def auto_match_lengths(a, data):
    """All n such that data[:n] is in the language."""
    res = []
    if a.nullable:
        res.append(0)
    st = (True, 0)
    for i, c in enumerate(data):
        m = auto_step(a, st, c)
        if m == 0:
            break
        if m & a.last:
            res.append(i + 1)
        st = (False, m)
    return res


def fixed_length(ast):
    """Length of every string of the language if constant, else None."""
    k = ast[0]
    if k == 'set':
        return 1
    if k == 'cat':
        t = 0
        for x in ast[1]:
            l = fixed_length(x)
            if l is None:
                return None
            t += l
        return t
    if k == 'alt':
        ls = set(fixed_length(x) for x in ast[1])
        if len(ls) == 1 and None not in ls:
            return ls.pop()
        return None
    if k == 'rep' and ast[2] == ast[3]:
        l = fixed_length(ast[1])
        return None if l is None else l * ast[2]
    return None
