"""Scratch copy of /repo's working tree + clean build of flex."""
import atexit
import os
import shutil
import subprocess
import tempfile

REPO = os.environ.get('VP_REPO', '/repo')
VERIF = os.path.dirname(os.path.dirname(os.path.abspath(__file__)))


class BuildError(Exception):
    pass


_scratch = None


def scratch_root():
    global _scratch
    if _scratch is None:
        base = os.environ.get('VP_SCRATCH_BASE') or os.environ.get('TMPDIR') or '/var/tmp'
        os.makedirs(base, exist_ok=True)
        _scratch = tempfile.mkdtemp(prefix='flexvp.', dir=base)
        if not os.environ.get('VP_KEEP'):
            atexit.register(lambda: shutil.rmtree(_scratch, ignore_errors=True))
    return _scratch


def run(cmd, cwd=None, timeout=600, env=None, input=None):
    p = subprocess.run(cmd, cwd=cwd, stdout=subprocess.PIPE, stderr=subprocess.PIPE,
                       timeout=timeout, env=env, input=input)
    return p.returncode, p.stdout.decode('latin-1'), p.stderr.decode('latin-1')


class Tree:
    """A built copy of the working tree."""

    def __init__(self):
        self.root = os.path.join(scratch_root(), 'src')
        self.src = os.path.join(self.root, 'src')
        self.flex = os.path.join(self.src, 'flex')


_tree = None


def build_flex(hooks=True):
    """rsync the working tree, clean, build src/flex.  Always a clean build."""
    global _tree
    if _tree is not None:
        return _tree
    t = Tree()
    os.makedirs(t.root, exist_ok=True)
    rc, out, err = run(['rsync', '-a', '--delete', '--exclude', '.git', '--exclude', '/tests/*',
                        '--exclude', '/_build', REPO + '/', t.root + '/'])
    if rc != 0:
        raise BuildError('rsync failed: ' + err)
    env = dict(os.environ)
    env.pop('MAKEFLAGS', None)
    run(['make', '-C', t.src, 'clean'], env=env)
    cflags = []
    if hooks:
        cflags = ['CPPFLAGS=-DWESTES_FLEX_VERIF']
    rc, out, err = run(['make', '-C', t.src, '-j16', 'flex'] + cflags, env=env, timeout=1200)
    if rc != 0 or not os.path.exists(t.flex):
        raise BuildError('flex does not build:\n' + (out + err)[-4000:])
    _tree = t
    return t


def flex_run(tree, args, cwd, input=None, timeout=120):
    """Run the freshly built flex binary."""
    env = dict(os.environ)
    env.pop('POSIXLY_CORRECT', None)
    env['LC_ALL'] = 'C'
    return run([tree.flex] + list(args), cwd=cwd, timeout=timeout, env=env, input=input)
