"""Rule-set specifications and the reference matcher generated from them.

A corpus entry is written in flex's own input syntax *without actions*
(section 1 declarations, '%%', one rule per line).  This module reads that
text with its own parser (vp/pattern.py), and
  * renders it back as a complete flex input with harness actions, and
  * emits a C reference matcher (bit-parallel position automata; no tables
    shared with flex).
After a pattern an optional marker selects the action kind:
    (nothing)  ordinary action
    |          the documented '|' action (same action as the next rule)
    @word      named action kind understood by the harness generator
"""
import re
from . import pattern as P


class Rule:
    pass


class Spec:
    def __init__(self, name, text, flags=(), notes=''):
        self.name = name
        self.text = text
        self.flags = list(flags)          # extra flex command-line flags
        self.notes = notes
        self.options = []                 # %option words from the text
        self.sconds = [('INITIAL', False)]
        self.defs = {}
        self.rules = []                   # numbered rules (1-based .num)
        self.eofs = []                    # (sc index list or None=unqualified)
        self.lines2 = []                  # section-2 logical lines for rendering
        self._parse()

    # ------------------------------------------------------------------
    def has_opt(self, w):
        return w in self.options

    @property
    def caseless(self):
        return (self.has_opt('caseless') or self.has_opt('case-insensitive')
                or '-i' in self.flags)

    @property
    def lex_compat(self):
        return self.has_opt('lex-compat') or '-l' in self.flags

    @property
    def posix_compat(self):
        return self.has_opt('posix-compat') or '-X' in self.flags

    @property
    def csize(self):
        return 128 if (self.has_opt('7bit') or '-7' in self.flags) else 256

    def scindex(self, name):
        for i, (n, _) in enumerate(self.sconds):
            if n == name:
                return i
        raise P.PatternError('undeclared start condition ' + name)

    def _parse(self):
        sect = 1
        scope = []                       # stack of sc-lists (None = none)
        for raw in self.text.split('\n'):
            line = raw.rstrip('\r')
            if sect == 1:
                if line.startswith('%%'):
                    sect = 2
                    continue
                if not line.strip():
                    continue
                m = re.match(r'%([sx])\s+(.*)$', line)
                if m:
                    for n in m.group(2).split():
                        self.sconds.append((n, m.group(1) == 'x'))
                    continue
                m = re.match(r'%option\s+(.*)$', line)
                if m:
                    self.options += m.group(1).split()
                    continue
                m = re.match(r'([A-Za-z_][A-Za-z0-9_-]*)[ \t]+(.*)$', line)
                if m:
                    self.defs[m.group(1)] = m.group(2).rstrip()
                    continue
                raise P.PatternError('section 1 line not understood: %r' % line)
            else:
                if line.startswith('%%'):
                    break
                s = line.strip()
                if not s:
                    continue
                if s == '}':
                    scope.pop()
                    self.lines2.append(('close',))
                    continue
                sc = None
                rest = s
                if s.startswith('<') and not s.startswith('<<EOF>>'):
                    e = s.index('>')
                    names = s[1:e]
                    rest = s[e + 1:]
                    sc = '*' if names == '*' else [n.strip() for n in names.split(',')]
                if rest.strip() == '{':
                    scope.append(sc)
                    self.lines2.append(('open', s[:s.index('>') + 1]))
                    continue
                self._add_rule(sc, rest, scope, s)
        # default rule
        r = Rule()
        r.num = len(self.rules) + 1
        r.default = True
        r.sc = list(range(len(self.sconds)))
        r.bol = False
        r.text = '(default)'
        r.head = ('set', P.mask_of(range(self.csize)))
        r.trail = None
        r.kind = 'default'
        r.fallthrough = False
        self._mkautos(r)
        self.default_rule = r

    def _resolve_sc(self, sc, scope):
        """The manual: a scope <A>{...} is equivalent to prefixing each
        enclosed rule; nested scopes and a rule's own list accumulate."""
        acc = []
        star = False
        for lst in scope + [sc]:
            if lst is None:
                continue
            if lst == '*':
                star = True
                continue
            for n in lst:
                i = self.scindex(n)
                if i not in acc:
                    acc.append(i)
        if star:
            for i in range(len(self.sconds)):
                if i not in acc:
                    acc.append(i)
        if not acc and not star:
            if any(l is not None for l in scope + [sc]):
                return acc
            return [i for i, (_, x) in enumerate(self.sconds) if not x]
        return acc

    def _add_rule(self, sc, rest, scope, whole):
        sclist = self._resolve_sc(sc, scope)
        prefix = whole[:len(whole) - len(rest)]
        if rest.startswith('<<EOF>>'):
            tail = rest[len('<<EOF>>'):].strip()
            explicit = (sc is not None) or any(l is not None for l in scope)
            self.eofs.append(dict(sc=sclist if explicit else None, kind=tail))
            self.lines2.append(('eof', prefix, len(self.eofs) - 1))
            return
        pat_end = _pattern_end(rest)
        ps = P.Parser(rest[:pat_end], defs=self.defs, caseless=self.caseless,
                      posix_repeat=self.posix_compat, lex_compat=self.lex_compat,
                      csize=self.csize)
        d = ps.parse_rule()
        r = Rule()
        r.num = len(self.rules) + 1
        r.default = False
        r.sc = sclist
        r.bol = d['bol']
        r.head = d['head']
        r.trail = d['trail']
        r.text = prefix + rest[:pat_end]
        marker = rest[pat_end:].strip()
        r.fallthrough = (marker == '|')
        r.kind = marker[1:] if marker.startswith('@') else ''
        self._mkautos(r)
        if r.full.nullable:
            raise P.PatternError('rule %d matches the empty string' % r.num)
        self.rules.append(r)
        self.lines2.append(('rule', r))

    def _mkautos(self, r):
        r.headauto = P.build_auto(r.head)
        if r.trail is not None:
            r.trailauto = P.build_auto(r.trail)
            r.full = P.build_auto(('cat', [r.head, r.trail]))
        else:
            r.trailauto = None
            r.full = r.headauto

    @property
    def all_rules(self):
        return self.rules + [self.default_rule]

    @property
    def has_bol(self):
        return any(r.bol for r in self.rules)

    @property
    def has_trailing(self):
        return any(r.trail is not None for r in self.rules)

    # ------------------------------------------------------------------
    def render(self, action, extra_options=(), eof_action=None, prologue='',
               sect2_prologue='', epilogue='', append_rules=()):
        """action(rule) -> C text of the action; returns flex input text."""
        out = []
        opts = list(self.options) + list(extra_options)
        if opts:
            out.append('%option ' + ' '.join(opts))
        if prologue:
            out.append('%{\n' + prologue + '\n%}')
        for n, x in self.sconds[1:]:
            out.append('%%%s %s' % ('x' if x else 's', n))
        for k, v in self.defs.items():
            out.append('%s %s' % (k, v))
        out.append('%%')
        if sect2_prologue:
            out.append('%{\n' + sect2_prologue + '\n%}')
        for item in self.lines2:
            if item[0] == 'open':
                out.append(item[1] + '{')
            elif item[0] == 'close':
                out.append('}')
            elif item[0] == 'eof':
                e = self.eofs[item[2]]
                a = eof_action(item[2], e) if eof_action else 'return 0;'
                out.append('%s<<EOF>> %s' % (item[1], a))
            else:
                r = item[1]
                if r.fallthrough:
                    out.append('%s |' % r.text)
                else:
                    out.append('%s %s' % (r.text, action(r)))
        out += list(append_rules)
        out.append('%%')
        if epilogue:
            out.append(epilogue)
        return '\n'.join(out) + '\n'

    # ------------------------------------------------------------------
    # pure-Python reference (used to validate the C reference and replays)
    def active(self, r, sc, bol):
        return sc in r.sc and (not r.bol or bol)

    def matches(self, data, sc, bol):
        """All (total_len, rule_num, [valid head lengths]) at position 0,
        ordered by total_len desc, rule asc."""
        res = []
        for r in self.all_rules:
            if not self.active(r, sc, bol):
                continue
            for L in P.auto_match_lengths(r.full, data):
                if L == 0:
                    continue
                if r.trail is None:
                    heads = [L]
                else:
                    heads = [p for p in P.auto_match_lengths(r.headauto, data[:L])
                             if (L - p) in P.auto_match_lengths(r.trailauto, data[p:L])]
                res.append((L, r.num, heads))
        res.sort(key=lambda t: (-t[0], t[1]))
        return res

    def first_token(self, data, sc=0, bol=True):
        m = self.matches(data, sc, bol)
        return m[0] if m else None


def _pattern_end(s):
    """Index of the first top-level blank in a rule line (pattern/action
    boundary), honouring quotes, classes, escapes and (?x: ) groups."""
    i, n = 0, len(s)
    xdepth = []          # per open paren: is x-mode on
    while i < n:
        c = s[i]
        if c == '\\':
            i += 2
            continue
        if c == '"':
            i += 1
            while i < n and s[i] != '"':
                i += 2 if s[i] == '\\' else 1
            i += 1
            continue
        if c == '[':
            i += 1
            if i < n and s[i] == '^':
                i += 1
            first = True
            while i < n and (s[i] != ']' or first):
                first = False
                if s[i] == '\\':
                    i += 2
                elif s.startswith('[:', i):
                    i = s.index(':]', i) + 2
                else:
                    i += 1
            i += 1
            continue
        if c == '(':
            x = xdepth[-1] if xdepth else False
            m = re.match(r'\(\?([isx]*)(-[isx]*)?:', s[i:])
            if m:
                if 'x' in (m.group(1) or ''):
                    x = True
                if m.group(2) and 'x' in m.group(2):
                    x = False
                i += len(m.group(0))
            else:
                i += 1
            xdepth.append(x)
            continue
        if c == ')':
            if xdepth:
                xdepth.pop()
            i += 1
            continue
        if c in ' \t' and not (xdepth and xdepth[-1]):
            return i
        i += 1
    return n


# ---------------------------------------------------------------------------
# C reference generation

def _ranges(mask):
    out = []
    c = 0
    while c < 256:
        if mask >> c & 1:
            s = c
            while c + 1 < 256 and mask >> (c + 1) & 1:
                c += 1
            out.append((s, c))
        c += 1
    return out


def c_set_expr(mask, var='c'):
    if mask == 0:
        return '0'
    rs = _ranges(mask)
    if len(rs) > 12:
        inv = _ranges(~mask & P.ALL)
        if len(inv) < len(rs):
            return '!(%s)' % c_set_expr(~mask & P.ALL, var)
    parts = []
    for lo, hi in rs:
        if lo == hi:
            parts.append('%s==%d' % (var, lo))
        elif lo == 0 and hi == 255:
            parts.append('1')
        elif lo == 0:
            parts.append('%s<=%d' % (var, hi))
        elif hi == 255:
            parts.append('%s>=%d' % (var, lo))
        else:
            parts.append('(%s>=%d&&%s<=%d)' % (var, lo, var, hi))
    return '(' + '||'.join(parts) + ')'


def _emit_step(name, a):
    """uint64_t name(uint64_t m, int first, unsigned c): one byte of the
    position automaton a (loop-free)."""
    L = ['static uint64_t %s(uint64_t m, int first, unsigned c) {' % name,
         '  uint64_t cand = first ? UINT64_C(%d) : 0, out = 0;' % a.first]
    for p in range(a.npos):
        if a.follow[p]:
            L.append('  if (m >> %d & 1) cand |= UINT64_C(%d);' % (p, a.follow[p]))
    bysets = {}
    for p in range(a.npos):
        bysets.setdefault(a.sets[p], 0)
        bysets[a.sets[p]] |= 1 << p
    for s, pm in bysets.items():
        L.append('  if (%s) out |= cand & UINT64_C(%d);' % (c_set_expr(s), pm))
    L.append('  return out;')
    L.append('}')
    return '\n'.join(L)


def emit_reference(spec, nmax):
    """C text of the reference matcher for spec; loops bounded by nmax."""
    R = spec.all_rules
    nr = len(R)
    L = ['/* generated by vp/spec.py from corpus entry %s -- independent of flex */' % spec.name,
         '#include <stdint.h>',
         '#define VP_NRULES %d' % nr,
         '#define VP_DEFAULT_RULE %d' % spec.default_rule.num,
         '#define VP_NSC %d' % len(spec.sconds),
         '#define VP_NMAX %d' % nmax,
         '#define VP_HAS_BOL %d' % (1 if spec.has_bol else 0)]
    for r in R:
        L.append('/* rule %d: %s */' % (r.num, r.text.replace('*/', '* /')))
        L.append(_emit_step('vp_full_%d' % r.num, r.full))
        if r.trail is not None:
            L.append(_emit_step('vp_head_%d' % r.num, r.headauto))
            L.append(_emit_step('vp_trail_%d' % r.num, r.trailauto))
    # activity
    L.append('static int vp_active(int r, int sc, int bol) {')
    L.append('  switch (r) {')
    for r in R:
        scm = 0
        for i in r.sc:
            scm |= 1 << i
        L.append('  case %d: return ((%du >> sc) & 1) && (%d || bol);' % (r.num, scm, 0 if r.bol else 1))
    L.append('  }\n  return 0;\n}')
    L.append('typedef struct { uint64_t m[VP_NRULES + 1]; } vp_state;')
    L.append('static void vp_init(vp_state *s) { for (int i = 0; i <= VP_NRULES; i++) s->m[i] = 0; }')
    L.append('static void vp_step(vp_state *s, int first, unsigned c, int sc, int bol) {')
    for r in R:
        L.append('  s->m[%d] = vp_full_%d(s->m[%d], first && vp_active(%d, sc, bol), c);'
                 % (r.num, r.num, r.num, r.num))
    L.append('}')
    L.append('static int vp_alive(const vp_state *s) { return 0%s; }'
             % ''.join(' || s->m[%d] != 0' % r.num for r in R))
    L.append('/* bitmask (bit r) of rules whose whole pattern matches the prefix read so far */')
    L.append('static uint64_t vp_accset(const vp_state *s) {')
    L.append('  uint64_t a = 0;')
    for r in R:
        L.append('  if (s->m[%d] & UINT64_C(%d)) a |= UINT64_C(1) << %d;' % (r.num, r.full.last, r.num))
    L.append('  return a;\n}')
    L.append('/* can some byte extend a match from this state */')
    L.append('static int vp_has_out(const vp_state *s) {')
    L.append('  uint64_t cand;')
    for r in R:
        a = r.full
        L.append('  cand = 0;')
        for p in range(a.npos):
            fol = 0
            for q in range(a.npos):
                if a.follow[p] >> q & 1 and a.sets[q]:
                    fol |= 1 << q
            if fol:
                L.append('  if (s->m[%d] >> %d & 1) cand |= UINT64_C(%d);' % (r.num, p, fol))
        L.append('  if (cand) return 1;')
    L.append('  return 0;\n}')
    L.append('static int vp_first_rule(uint64_t a) { for (int r = 1; r <= VP_NRULES; r++) if (a >> r & 1) return r; return 0; }')
    # trailing context split validity
    L.append('/* is p a valid head length for rule r with total length tot on d[0..tot) */')
    L.append('static int vp_split_ok(int r, const unsigned char *d, int p, int tot) {')
    L.append('  uint64_t m; int ok; (void)m; (void)ok;')
    L.append('  switch (r) {')
    for r in R:
        if r.trail is None:
            L.append('  case %d: return p == tot;' % r.num)
            continue
        L.append('  case %d:' % r.num)
        L.append('    if (p < 0 || p > tot) return 0;')
        L.append('    m = 0; ok = %d;' % (1 if r.headauto.nullable else 0))
        L.append('    for (int i = 0; i < VP_NMAX; i++) { if (i >= p) break; m = vp_head_%d(m, i == 0, d[i]); ok = (m & UINT64_C(%d)) != 0; }'
                 % (r.num, r.headauto.last))
        L.append('    if (!ok) return 0;')
        L.append('    m = 0; ok = %d;' % (1 if r.trailauto.nullable else 0))
        L.append('    for (int i = 0; i < VP_NMAX; i++) { if (p + i >= tot) break; m = vp_trail_%d(m, i == 0, d[p + i]); ok = (m & UINT64_C(%d)) != 0; }'
                 % (r.num, r.trailauto.last))
        L.append('    return ok;')
    L.append('  }\n  return 0;\n}')
    L.append('static int vp_has_trail(int r) { switch (r) {%s } return 0; }'
             % ''.join(' case %d: return 1;' % r.num for r in R if r.trail is not None))
    L.append('''
/* first token of d[0..n) in start condition sc with beginning-of-line flag bol:
   longest total match, ties to the lowest rule number.  Returns the rule
   (0 when n == 0) and the total matched length (head+trailing context). */
static int vp_first_token(const unsigned char *d, int n, int sc, int bol, int *tot) {
  vp_state s; vp_init(&s);
  int best_rule = 0, best_len = 0;
  for (int i = 0; i < VP_NMAX; i++) {
    if (i >= n) break;
    vp_step(&s, i == 0, d[i], sc, bol);
    uint64_t a = vp_accset(&s);
    if (a) { best_rule = vp_first_rule(a); best_len = i + 1; }
  }
  *tot = best_len;
  return best_rule;
}
''')
    return '\n'.join(L) + '\n'
