"""./check <prop> --replay <path>: re-run a recorded counterexample against
the scanner regenerated from /repo's current working tree."""
import json
import os
import shutil

from . import build, replay, harness as H


def main(prop, path):
    with open(path) as fh:
        p = json.load(fh)
    meta = p.get('meta', {})
    tree = build.build_flex()
    wd = os.path.join(build.scratch_root(), 'replay')
    os.makedirs(wd, exist_ok=True)
    shutil.copy(os.path.join(H.HDIR, 'vp_harness.h'), wd)
    if p.get('flex_input') and meta.get('flex_args'):
        args = meta['flex_args']
        lname = args[-1]
        with open(os.path.join(wd, lname), 'w', encoding='latin-1') as fh:
            fh.write(p['flex_input'])
        rc, out, err = build.flex_run(tree, args, cwd=wd)
        print('flex %s -> rc %d %s' % (' '.join(args), rc, err.strip()[:300]))
        if rc != 0:
            print('REPLAY: flex refuses the input now')
            return 1
    if not p.get('harness_text'):
        print('REPLAY: payload has no harness (generation-time finding): %s' % p.get('assertion', p.get('stderr', '')))
        print(json.dumps({k: v for k, v in p.items() if k not in ('flex_input',)}, indent=1)[:2000])
        return 1
    hc = os.path.join(wd, p.get('harness', 'harness.c'))
    with open(hc, 'w') as fh:
        fh.write(p['harness_text'])
    vals = p.get('inputs', {})
    extra = []
    if meta.get('engine') == 'E5':
        shutil.copy(os.path.join(H.HDIR, 'vp_libc_models.h'), wd)
        extra = ['-lm', '-no-pie', '-Wl,--unresolved-symbols=ignore-all', '-DHAVE_CONFIG_H',
                 '-DLOCALEDIR="/usr/local/share/locale"', '-I', tree.src] + ['-D' + d for d in str(meta.get('config', '')).split() if d]
    r = replay.native_replay(wd, hc, vals, 'cmd', extra_cflags=extra)
    print('inputs: %s' % vals)
    print('native outcome: %s %s' % (r['outcome'], r.get('assertion', '')))
    print(r.get('detail', '')[-1500:])
    if r['outcome'] in ('assert', 'sanitizer', 'timeout'):
        print('REPLAY: violation reproduces (%s)' % p.get('assertion'))
        return 1
    print('REPLAY: does not reproduce on the current tree')
    return 0
