"""C03 tokens independent of input delivery; interactive scanners do not over-read."""
from .. import corpus, engines as E, harness as H
from . import common
from .c02 import C


def run(ctx):
    quick = ctx.tier == 'quick'
    names = ['lit1', 'backup', 'nul1', 'bol1', 'tc_fixed_trail', 'default1'] if quick else \
            ['lit1', 'backup', 'backup2', 'nul1', 'nul_jam', 'bol1', 'eol1', 'tc_fixed_trail', 'tc_fixed_head', 'default1', 'sc1', 'ties', 'high1', 'bar1']
    specs = common.select(ctx, corpus.specs(names=names))
    cfgs = [C('Cem'), C('B', ['-B']), C('Cfe', ['-Cfe']), C('CFe', ['-CFe']), C('Cf8', ['-Cf', '-8'])] if quick else \
           [C('Cem'), C('B', ['-B']), C('Cfe', ['-Cfe']), C('CFe', ['-CFe']), C('Cf8', ['-Cf', '-8']), C('CF8', ['-CF', '-8']), C('array', options=['array', 'yylmax=16']), C('r', api='r'), C('C', ['-C'])]
    shapes = [(1, 1), (2, 1), (2, 2)] if quick else [(1, 1), (2, 1), (2, 2), (1, 2), (3, 2), (2, 3), (3, 3)]
    jobs = []
    for spec in specs:
        for cfg in cfgs:
            if cfg.table_kind != 'compressed' and ('vartrail' in spec.tags or 'reject' in spec.tags):
                continue
            if quick and cfg.name in ('Cfe', 'CFe', 'Cf8') and spec.name not in ('backup', 'nul1'):
                continue        # full/fast tables (with and without a separate NUL table): the re-walk of pending text after a refill has its own back-up bookkeeping
            interactive = cfg.table_kind == 'compressed' and '-B' not in cfg.flags
            for i, (bs, m) in enumerate(shapes):
                if quick and cfg.name != 'Cem' and (bs, m) != (2, 1):
                    continue
                js, g = E.e3w_jobs(ctx, spec, cfg, bs, m, maxnul=(2 if ('nul' in spec.tags and not quick) else 1),
                                   witness=(i == 1 and spec.name in ('lit1', 'nul1')),
                                   timeout=(240 if quick else 1500), mem_mb=(10000 if quick else 24000),
                                   interactive_check=interactive, tagx='_%d_%d' % (bs, m))
                if not common.gen_ok(ctx, g, spec, cfg, 'E3'):
                    break
                jobs += js
    # the refill routine as a unit: arbitrary valid buffer state, one call
    for cfg in ([C('Cem'), C('r', api='r')] if quick else [C('Cem'), C('r', api='r'), C('array', options=['array', 'yylmax=16']), C('Cfe', ['-Cfe'])]):
        js, g = E.gnb_jobs(ctx, specs[0], cfg, cap=(4 if quick else 6), m=(3 if quick else 4))
        jobs += js
    # in-memory sources (yy_scan_bytes / yy_scan_string copy, yy_scan_buffer in place)
    for spec in specs[:3] if quick else specs:
        for src in ('bytes',):
            js, g = E.e1_jobs(ctx, spec, C('Cem'), range(0, 4) if quick else range(0, 6), maxnul=(1 if src == 'bytes' else 0),
                              tagx='_' + src, source=src, timeout=(200 if quick else 900))
            jobs += js
    jobs.sort(key=lambda j: (0 if j.meta.get('engine') == 'G1' else 1, common._cost(j)))
    ctx.run_cbmc(jobs)
    common.std_assumptions(ctx)
    ctx.assume('input routine = harness YY_INPUT returning any 1..min(max,available) bytes per call and 0 only at end of input')
    ctx.assume('inductive step: arbitrary buffer state (fill, position, status) constrained only by the representation invariant; the invariant is re-established (asserted) after the step')
    ctx.out_of_bound.append('buffers of capacity > 3 and more than 3 further source bytes per step; stdio/read(2) input routines are exercised in C14; C++ streams')
