"""C11 multiple input buffers keep independent positions and contents."""
from .. import corpus, engines as E
from . import common
from .c02 import C


def run(ctx):
    quick = ctx.tier == 'quick'
    names = ['lit1', 'bol1', 'sc1'] if quick else ['lit1', 'bol1', 'sc1', 'backup', 'nul_class', 'tc_fixed_trail', 'ln_basic']
    specs = common.select(ctx, corpus.specs(names=names))
    cfgs = [C('Cem'), C('r', api='r')] if quick else [C('Cem'), C('r', api='r'), C('B', ['-B']), C('Cfe', ['-Cfe']), C('array', options=['array', 'yylmax=16'])]
    jobs = []
    for s in specs:
        for c in cfgs:
            lens = [1, 2, 3] if quick else [0, 1, 2, 3, 4]
            js, g = E.api_jobs(ctx, s, c, lens, ops=(0, 1, 2, 3, 4), timeout=(200 if quick else 900),
                               witness_len=(2 if s.name == 'lit1' else None))
            if not common.gen_ok(ctx, g, s, c, 'E4b'):
                continue
            jobs += js
            if s.name in ('lit1', 'bol1'):
                js, g = E.api_jobs(ctx, s, c, [2, 3] if quick else [2, 3, 4], ops=(0, 1), second_lex=True,
                                   timeout=(200 if quick else 900), tagx='s')
                jobs += js
    # buffer popped inside a user yywrap() (include-file idiom): scanning resumes in the buffer pushed before
    for s in common.select(ctx, corpus.specs(names=['lit1'] if quick else ['lit1', 'bol1'])):
        for c in ([C('Cem')] if quick else [C('Cem'), C('r', api='r')]):
            js, g = E.wrap_jobs(ctx, s, c, [1, 2] if quick else [0, 1, 2, 3], timeout=(200 if quick else 900), mores=(2,))
            if common.gen_ok(ctx, g, s, c, 'wrap'):
                jobs += js
    ctx.run_cbmc(jobs)
    common.std_assumptions(ctx)
    ctx.assume('buffers made by yy_scan_buffer (in place) and yy_scan_bytes (private copy); NUL-free contents so that the unread text of a buffer is well defined by position')
    ctx.out_of_bound.append('more than two live buffers; nesting beyond the initial buffer-stack allocation; yy_create_buffer FILE buffers (C03 harness)')
