"""C18 scanner generation is deterministic and reproducible (partial)."""
import hashlib
import os
import re
import subprocess

from .. import build, corpus, e5, harness as H
from . import common


def run(ctx):
    ctx.level = 'other'
    quick = ctx.tier == 'quick'
    jobs = [
        e5.kernel_job(ctx, 'k_hash.c', name='hash', harness_bound=8, timeout=300, checks='safety'),
        e5.kernel_job(ctx, 'k_hash.c', name='hash_w', defines=['VP_WITNESS'], harness_bound=8, timeout=300, expect='witness'),
    ]
    ctx.run_cbmc(jobs)
    ctx.functions.add('hashfunct')
    tree = ctx.ensure_tree()
    # (1) no source of nondeterminism is linked into the generator
    p = subprocess.run(['nm', '-u', tree.flex], stdout=subprocess.PIPE, stderr=subprocess.PIPE)
    und = set(re.sub(r'@.*', '', l.split()[-1]) for l in p.stdout.decode().splitlines() if l.strip())
    bad = sorted(und & {'time', 'clock', 'gettimeofday', 'clock_gettime', 'getpid', 'rand', 'random', 'srand', 'srandom', 'mkstemp', 'tmpnam', 'tmpfile', 'mktemp', 'getrandom'})
    st = 'ok'
    if bad:
        st = ctx.violation('nondet_symbols', 'flex references %s' % bad, dict(symbols=bad), key=dict(entry='symbols', engine='symbol-table', assertion='no time/pid/random'))
        st = 'violated' if st == 'violation' else 'known-finding'
    ctx.record('nondet_symbols', st, engine='symbol-table', detail='undefined symbols of src/flex checked: %d; offending: %s' % (len(und), bad))
    # (2) repeated runs under perturbed allocators / environments are byte-identical
    wd = ctx.subdir('det')
    specs = common.select(ctx, corpus.specs(names=['c_like', 'sc_scope', 'tc_var', 'rej1', 'ln_trail', 'many_classes'] if quick else None))
    specs = [s for s in specs if 'combi' not in s.tags][: (6 if quick else 60)]
    optsets = [[], ['-Cf', '-8'], ['-CF'], ['-Cem', '--reentrant'], ['--emit=c99'], ['-Ca']] if quick else \
              [[], ['-C'], ['-Ce'], ['-Cm'], ['-Cf', '-8'], ['-CF', '-8'], ['-Cfe'], ['-CFe'], ['-Ca'], ['--reentrant'], ['--emit=c99'], ['-B'], ['-i']]
    runs = 0
    for s in specs:
        text = s.render(lambda r: 'return %d;' % H.spec_action_id(s, r), extra_options=['noyywrap'])
        lp = os.path.join(wd, s.name + '.l')
        with open(lp, 'w', encoding='latin-1') as fh:
            fh.write(text)
        for oi, opts in enumerate(optsets):
            if ('-Cf' in opts or '-CF' in opts or '-Cfe' in opts or '-CFe' in opts) and (s.tags & {'reject', 'vartrail'} or (s.has_trailing and 'bar' in s.tags)):
                continue
            if s.lex_compat and opts:
                continue
            outs = []
            for k, env in enumerate([{}, {'MALLOC_PERTURB_': '165'}, {'MALLOC_PERTURB_': '90', 'TZ': 'Asia/Tokyo', 'LANG': 'C.UTF-8', 'COLUMNS': '33'}]):
                hdr = 'h%d_%d.h' % (oi, k)
                tbl = 't%d_%d.tables' % (oi, k)
                out = 'o%d_%d.c' % (oi, k)
                e = dict(os.environ); e.update(env); e['LC_ALL'] = 'C'
                args = [tree.flex] + list(s.flags) + opts + ['--header-file=' + hdr, '-o', out, s.name + '.l']
                if k == 2:
                    args = ['env', '-C', wd] + args if False else args
                q = subprocess.run(args, cwd=wd, env=e, stdout=subprocess.PIPE, stderr=subprocess.PIPE)
                runs += 1
                dig = []
                for f in (out, hdr):
                    fp = os.path.join(wd, f)
                    data = open(fp, 'rb').read() if os.path.exists(fp) else b'<missing>'
                    data = re.sub(rb'[oh]\d+_\d+\.(c|h)', b'FILE', data)
                    dig.append(hashlib.sha256(data).hexdigest())
                outs.append((q.returncode, tuple(dig)))
            same = len(set(outs)) == 1
            name = 'det_%s_%s' % (s.name, '_'.join(o.strip('-') for o in opts) or 'default')
            st = 'ok'
            if not same:
                st = ctx.violation(name, 'three runs of flex %s on %s give different outputs' % (opts, s.name), dict(flex_input=text, options=opts, digests=[str(o) for o in outs]),
                                   key=dict(entry=s.name, config=' '.join(opts), engine='flex-run', assertion='repeatable output'))
                st = 'violated' if st == 'violation' else 'known-finding'
            ctx.record(name, st, engine='flex-run', entry=s.name, config=' '.join(opts), detail='3 runs (MALLOC_PERTURB_ unset/165/90, TZ/LANG varied): %s' % ('identical' if same else 'DIFFER'))
        # named file versus stdout
        q1 = subprocess.run([tree.flex] + list(s.flags) + ['-o', 'named.c', s.name + '.l'], cwd=wd, stdout=subprocess.PIPE, stderr=subprocess.PIPE)
        q2 = subprocess.run([tree.flex] + list(s.flags) + ['-t', s.name + '.l'], cwd=wd, stdout=subprocess.PIPE, stderr=subprocess.PIPE)
        a = open(os.path.join(wd, 'named.c'), 'rb').read() if q1.returncode == 0 else b''
        b = q2.stdout
        na = re.sub(rb'#line (\d+) "named\.c"', rb'#line \1 "OUT"', a)
        nb = re.sub(rb'#line (\d+) "<stdout>"', rb'#line \1 "OUT"', b)
        same = q1.returncode == q2.returncode and na == nb
        st = 'ok'
        if not same:
            st = ctx.violation('stdout_' + s.name, 'output to a named file and to stdout differ beyond the file name in #line', dict(flex_input=text),
                               key=dict(entry=s.name, engine='flex-run', assertion='-o versus -t'))
            st = 'violated' if st == 'violation' else 'known-finding'
        ctx.record('stdout_' + s.name, st, engine='flex-run', entry=s.name, detail='-o file versus -t: %s' % ('identical modulo #line file name' if same else 'DIFFER'))
    # (3) flex's own scanner regenerated by the flex built from it is identical (bootstrap)
    q = subprocess.run(['make', '-C', tree.src, 'stage2compare'], stdout=subprocess.PIPE, stderr=subprocess.PIPE)
    ok = q.returncode == 0
    st = 'ok'
    if not ok:
        st = ctx.violation('stage2compare', 'regenerating scan.l with the flex built from it does not reproduce it: ' + (q.stdout + q.stderr).decode('latin-1')[-300:], {},
                           key=dict(entry='bootstrap', engine='flex-run', assertion='stage1 == stage2'))
        st = 'violated' if st == 'violation' else 'known-finding'
    ctx.record('stage2compare', st, engine='flex-run', detail='make stage2compare rc=%s' % q.returncode)
    ctx.extra_cov['flex_runs'] = runs
    ctx.assume('determinism of whole generator runs is observed on the real binary under perturbed allocators/environments (sampling of the "schedules" quantifier); the solver part covers the symbol-table hash only')
    ctx.assume('cbmc 6.11 + MiniSat sound')
    ctx.out_of_bound.append('two-run self-composition of tblcmp.c/gen.c under cbmc (no verdict within budget, DESIGN section 2)')
