"""C09 yylineno equals one plus the number of newlines consumed."""
from .. import corpus
from . import common
from .c02 import C, compatible


def configs(tier):
    L = [C('Cem'), C('Cfe', ['-Cfe']), C('B', ['-B']), C('array', options=['array', 'yylmax=16']), C('r', api='r'), C('c99', api='c99')]
    if tier == 'thorough':
        L += [C('C', ['-C']), C('CFe', ['-CFe']), C('rCfe', ['-Cfe'], api='r'), C('c99Cfe', ['-Cfe'], api='c99')]
    return L


def can_match_nl(auto):
    return any(s >> 10 & 1 for s in auto.sets)


def table_facts(ctx, pairs):
    """The generated rule_can_match_eol table must flag every rule whose
    pattern (for r/s: the head r, the text that is consumed) can contain a newline; with the '|'
    action a rule shares the action -- and the flag -- of the rules falling into it."""
    from .. import engines as E, harness as H
    for spec, cfg in pairs:
        if 'lineno' not in spec.tags:
            continue
        wd, g = E._prep(ctx, spec, cfg, 'tok', extra_options=E.ALLOC_OPTS)
        if not g.ok:
            continue
        arr = H.table_facts(g)['arrays'].get('yy_rule_can_match_eol')
        name = 'eoltable_%s_%s' % (spec.name, cfg.name)
        if arr is None:
            ctx.record(name, 'skipped', reason='table yy_rule_can_match_eol not found')
            continue
        bad = []
        need = {}
        for r in spec.rules:
            # only newlines of the text the action sees (the head r of r/s) are consumed and counted;
            # flex may flag more (it flags 'a/\\n' but need not flag 'b$')
            if can_match_nl(r.headauto if r.trail is not None else r.full):
                need[r.num] = True
        # '|' chains: the action of rule k also runs for every rule falling into it
        for r in spec.rules:
            k = r.num
            while k <= len(spec.rules) and spec.rules[k - 1].fallthrough:
                k += 1
            if need.get(r.num) and k <= len(spec.rules):
                need[k] = True
        need[spec.default_rule.num] = True
        for k in need:
            if k < len(arr) and not arr[k]:
                bad.append(k)
        ctx.record(name, 'ok' if not bad else 'violated', engine='table-fact', entry=spec.name, config=cfg.name,
                   detail='rules that can match a newline but are not flagged: %s' % bad)
        if bad:
            ctx.violation(name, 'rule(s) %s can match a newline but yy_rule_can_match_eol is 0: yylineno would not count it' % bad,
                          dict(flex_input=g.ltext, flex_args=g.args, table=arr), key=dict(entry=spec.name, config=cfg.name, engine='table-fact', assertion='rule_can_match_eol'))


def run(ctx):
    quick = ctx.tier == 'quick'
    specs = [s for s in common.select(ctx, corpus.specs()) if s.tags & {'lineno', 'nolineno'}]
    cfgs = [c for c in configs(ctx.tier) if not quick or c.name in ('Cem', 'r', 'c99')]
    pairs = [(s, c) for s in specs for c in cfgs if not compatible(s, c)]

    def e1_filter(spec, cfg):
        if quick:
            if cfg.name == 'Cem':
                return True
            if cfg.name == 'r':
                return spec.name in ('ln_basic', 'ln_trail', 'ln_tc_var', 'ln_none')
            return False
        return cfg.name in ('Cem', 'r') or 'e1' in spec.tags

    # every first-token job asserts yylineno against the newlines of the consumed text
    table_facts(ctx, pairs)
    common.tokenization_pairs(ctx, pairs, e1_tag=None, e1_lengths=range(0, 5) if quick else range(0, 7),
                              e2_cap=8 if quick else 14, e1_filter=e1_filter,
                              full_e1_lengths=range(0, 4) if quick else range(0, 5),
                              e2_filter=lambda s, c: c.name == 'Cem')
    try:
        from . import histories
        histories.lineno_obligations(ctx)
    except (ImportError, AttributeError):
        ctx.notes.append('yyless/yyunput/yyinput line-number history obligations: see C08 harness')
    common.std_assumptions(ctx)
    ctx.out_of_bound.append('line numbers across more than one token per query (the count after a step equals the count before plus the newlines of the token, which the inductive reading extends to any number of tokens)')
