"""C09 yylineno equals one plus the number of newlines consumed."""
from .. import corpus
from . import common
from .c02 import C, compatible


def configs(tier):
    L = [C('Cem'), C('Cfe', ['-Cfe']), C('B', ['-B']), C('array', options=['array', 'yylmax=16']), C('r', api='r'), C('c99', api='c99')]
    if tier == 'thorough':
        L += [C('C', ['-C']), C('CFe', ['-CFe']), C('rCfe', ['-Cfe'], api='r'), C('c99Cfe', ['-Cfe'], api='c99')]
    return L


def run(ctx):
    quick = ctx.tier == 'quick'
    specs = [s for s in common.select(ctx, corpus.specs()) if s.tags & {'lineno', 'nolineno'}]
    pairs = [(s, c) for s in specs for c in configs(ctx.tier) if not compatible(s, c)]

    def e1_filter(spec, cfg):
        if quick and cfg.name not in ('Cem', 'r'):
            return spec.name in ('ln_basic', 'ln_dot', 'ln_trail')
        return cfg.name in ('Cem', 'r') or 'e1' in spec.tags

    # every first-token job asserts yylineno against the newlines of the consumed text
    common.tokenization_pairs(ctx, pairs, e1_tag=None, e1_lengths=range(0, 4) if quick else range(0, 6),
                              e2_cap=8 if quick else 14, e1_filter=e1_filter,
                              full_e1_lengths=range(0, 4) if quick else range(0, 5),
                              e2_filter=lambda s, c: c.name == 'Cem')
    try:
        from . import histories
        histories.lineno_obligations(ctx)
    except (ImportError, AttributeError):
        ctx.notes.append('yyless/yyunput/yyinput line-number history obligations: see C08 harness')
    common.std_assumptions(ctx)
    ctx.out_of_bound.append('line numbers across more than one token per query (the count after a step equals the count before plus the newlines of the token, which the inductive reading extends to any number of tokens)')
