"""C19 every documented option has its documented effect, via CLI and %option alike (partial)."""
import os
import re
import subprocess

from .. import build, e5
from . import common

RULES = 'D [0-9]\n%%\n{D}+ return 1;\n[a-z]+ return 2;\n^x$ return 3;\n.|\\n ;\n%%\n'

# (command-line spelling, %option spelling)
PAIRS = [
    ('-7', '7bit'), ('-8', '8bit'), ('--align', 'align'), ('--array', 'array'), ('--pointer', 'pointer'),
    ('-B', 'batch'), ('-I', 'interactive'), ('--always-interactive', 'always-interactive'),
    ('--never-interactive', 'never-interactive'), ('-i', 'case-insensitive'), ('-d', 'debug'), ('-s', 'nodefault'),
    ('--ecs', 'ecs'), ('--noecs', 'noecs'), ('--meta-ecs', 'meta-ecs'), ('--nometa-ecs', 'nometa-ecs'),
    ('-f', 'full'), ('-F', 'fast'), ('--read', 'read'), ('-l', 'lex-compat'), ('-X', 'posix-compat'),
    ('--main', 'main'), ('--reentrant', 'reentrant'), ('--bison-bridge', 'bison-bridge'),
    ('--bison-locations', 'bison-locations'), ('--stack', 'stack'), ('--stdinit', 'stdinit'), ('--nostdinit', 'nostdinit'),
    ('--yylineno', 'yylineno'), ('--yymore', 'yymore'), ('--noyymore', 'noyymore'), ('--reject', 'reject'), ('--noreject', 'noreject'),
    ('--noyywrap', 'noyywrap'), ('--nounput', 'nounput'), ('--noinput', 'noinput'), ('--nounistd', 'nounistd'),
    ('-Pzz', 'prefix="zz"'), ('--emit=c99', 'emit="c99"'), ('-w', 'nowarn'), ('--nodefault', 'nodefault'), ('--noline', 'noline'),
    ('--yyclass=Foo -+', 'yyclass="Foo" c++'), ('-+', 'c++'),
]


def run(ctx):
    quick = ctx.tier == 'quick'
    jobs = [
        e5.kernel_job(ctx, 'k_check_options.c', name='check_options', harness_bound=260, timeout=300),
        e5.kernel_job(ctx, 'k_check_options.c', name='check_options_w', defines=['VP_WITNESS'], harness_bound=260, timeout=300, expect='witness'),
    ]
    # flexinit(): the option dispatch on a symbolic sequence of options
    jobs += [
        e5.kernel_job(ctx, 'k_flexinit.c', name='flexinit_k2', defines=['VP_K=2'], harness_bound=8, default_bound=4, timeout=400),
        e5.kernel_job(ctx, 'k_flexinit.c', name='flexinit_k2_w', defines=['VP_K=2', 'VP_WITNESS'], harness_bound=8, default_bound=4, timeout=400, expect='witness'),
        e5.kernel_job(ctx, 'k_flexinit.c', name='flexinit_C_k4', defines=['VP_K=4', 'VP_ONLY_C'], harness_bound=8, default_bound=6, timeout=400),
    ]
    if not quick:
        jobs.append(e5.kernel_job(ctx, 'k_flexinit.c', name='flexinit_k3', defines=['VP_K=3'], harness_bound=8, default_bound=5, timeout=1800, mem_mb=16000))
    ctx.run_cbmc(jobs)
    ctx.functions.update(['check_options', 'flexinit', 'sf_init', 'sf_set_case_ins', 'set_up_initial_allocations'])
    spelling_equivalence(ctx)
    name_level_effects(ctx)
    ctx.assume('check_options(): every boolean of the option record, the character-set size and the interactive trit are solver variables; stubs: flexerror/lerr end the path, freopen returns an arbitrary result')
    ctx.assume('flexinit(): scanopt() replaced by a stub handing out K solver-chosen option codes (K=2 all options, K=4 for the -C family; -C arguments are solver-chosen strings of <= 2 characters); --help/--version/-D excluded; allocate_array/buf_*/set_input_file stubbed')
    ctx.assume('cbmc 6.11 + MiniSat sound; --unwinding-assertions on every query')
    ctx.out_of_bound.append('options whose effect is on reports/files only (-b, -v, -p, -T, -S); C++-only options beyond generation; pairwise combinations beyond check_options()')


def _norm(text, names):
    for n in names:
        text = text.replace(n, 'FILE')
    text = re.sub(r'#line \d+', '#line N', text)
    return text


def spelling_equivalence(ctx):
    """The same option given on the command line and as %option gives the same generated scanner."""
    tree = ctx.ensure_tree()
    wd = ctx.subdir('spelling')
    for cli, opt in PAIRS:
        tag = re.sub(r'[^A-Za-z0-9]+', '_', cli).strip('_')
        a, b = 'a_%s' % tag, 'b_%s' % tag
        with open(os.path.join(wd, a + '.l'), 'w') as fh:
            fh.write('%option noyywrap\n' + RULES)
        with open(os.path.join(wd, b + '.l'), 'w') as fh:
            fh.write('%option noyywrap ' + opt + '\n' + RULES)
        outa = a + ('.cc' if '+' in cli else '.c')
        outb = b + ('.cc' if '+' in cli else '.c')
        for f in (outa, outb):
            if os.path.exists(os.path.join(wd, f)):
                os.unlink(os.path.join(wd, f))
        rca, _, ea = build.flex_run(tree, ['-L'] + cli.split() + ['-o', outa, a + '.l'], cwd=wd)
        rcb, _, eb = build.flex_run(tree, ['-L', '-o', outb, b + '.l'], cwd=wd)
        name = 'spelling_' + tag
        if rca != rcb:
            ok, why = False, 'exit status differs: CLI %s vs %%option %s (%s | %s)' % (rca, rcb, ea.strip()[:100], eb.strip()[:100])
        elif rca != 0:
            ok, why = True, 'both refused'
        else:
            ta = _norm(open(os.path.join(wd, outa), errors='replace').read(), [outa, a + '.l', a])
            tb = _norm(open(os.path.join(wd, outb), errors='replace').read(), [outb, b + '.l', b])
            ok = ta == tb
            why = 'identical' if ok else 'generated files differ'
        st = 'ok'
        if not ok:
            st = ctx.violation(name, 'option %s: %s' % (cli, why), dict(cli=cli, option=opt, stderr_cli=ea[:500], stderr_opt=eb[:500]),
                               key=dict(entry=tag, engine='flex-run', assertion='CLI and %option spelling agree'))
            st = 'violated' if st == 'violation' else 'known-finding'
        ctx.record(name, st, engine='flex-run', detail=why)


def _nm(path):
    p = subprocess.run(['nm', '-g', '--defined-only', path], stdout=subprocess.PIPE, stderr=subprocess.PIPE)
    return [l.split()[-1] for l in p.stdout.decode().splitlines() if l.strip()]


def name_level_effects(ctx):
    tree = ctx.ensure_tree()
    wd = ctx.subdir('names')

    def gen(tag, opts, flags=(), rules=RULES, extra_top=''):
        with open(os.path.join(wd, tag + '.l'), 'w') as fh:
            fh.write(('%option ' + opts + '\n' if opts else '') + extra_top + rules)
        rc, so, se = build.flex_run(tree, list(flags) + ['-o', tag + '.c', tag + '.l'], cwd=wd)
        return rc, se

    def cc(tag, extra=()):
        p = subprocess.run(['gcc', '-c', '-w'] + list(extra) + ['-o', tag + '.o', tag + '.c'], cwd=wd, stdout=subprocess.PIPE, stderr=subprocess.PIPE)
        return p.returncode, p.stderr.decode('latin-1')

    def verdict(name, ok, why, payload=None):
        st = 'ok'
        if not ok:
            st = ctx.violation(name, why, payload or {}, key=dict(entry=name, engine='flex-run', assertion='documented effect'))
            st = 'violated' if st == 'violation' else 'known-finding'
        ctx.record(name, st, engine='flex-run', detail=why[:200])

    # prefix renames every externally visible symbol
    for api, opts in (('nr', 'noyywrap prefix="zz"'), ('r', 'noyywrap reentrant prefix="zz"'), ('c99', 'noyywrap prefix="zz" emit="c99"')):
        tag = 'prefix_' + api
        rc, se = gen(tag, opts)
        ok = rc == 0
        why = 'flex rc=%s %s' % (rc, se[:100])
        if ok:
            r2, e2 = cc(tag)
            ok = r2 == 0
            why = 'compile: ' + e2[:150]
        if ok:
            syms = _nm(os.path.join(wd, tag + '.o'))
            bad = [s for s in syms if s.startswith('yy') or s.startswith('YY')]
            ok = not bad and any(s.startswith('zz') for s in syms)
            why = 'external symbols not renamed: %s' % bad[:8] if bad else 'all %d external symbols carry the prefix' % len(syms)
        verdict('opt_' + tag, ok, why)
    # two prefixes link into one program
    gen('pa', 'noyywrap prefix="aa"'); gen('pb', 'noyywrap prefix="bb"')
    cc('pa'); cc('pb')
    p = subprocess.run(['ld', '-r', '-o', 'pab.o', 'pa.o', 'pb.o'], cwd=wd, stdout=subprocess.PIPE, stderr=subprocess.PIPE)
    verdict('opt_two_prefixes_link', p.returncode == 0, 'ld -r: ' + p.stderr.decode()[:200])
    # noyy* options omit the named function
    for opt, sym in (('noyy_scan_string', 'yy_scan_string'), ('noyy_scan_bytes', 'yy_scan_bytes'), ('noyy_scan_buffer', 'yy_scan_buffer'),
                     ('noyyget_lineno', 'yyget_lineno'), ('noyyset_lineno', 'yyset_lineno'), ('noyyget_text', 'yyget_text'),
                     ('noyyget_leng', 'yyget_leng'), ('noyyget_in', 'yyget_in'), ('noyyset_in', 'yyset_in'), ('noyyget_out', 'yyget_out'),
                     ('noyyset_out', 'yyset_out'), ('noyyget_debug', 'yyget_debug'), ('noyyset_debug', 'yyset_debug'),
                     ('noyyget_extra', 'yyget_extra'), ('noyyset_extra', 'yyset_extra'), ('noyyalloc', 'yyalloc'),
                     ('noyyrealloc', 'yyrealloc'), ('noyyfree', 'yyfree'), ('noyy_push_state', 'yy_push_state')):
        tag = 'omit_' + opt
        opts = 'noyywrap ' + opt + (' stack' if 'state' in opt else '')
        rc, se = gen(tag, opts)
        ok = rc == 0
        why = 'flex rc=%s %s' % (rc, se[:100])
        if ok:
            r2, e2 = cc(tag)
            ok = r2 == 0
            why = 'compile: ' + e2[:150]
        if ok:
            syms = _nm(os.path.join(wd, tag + '.o'))
            ok = sym not in syms
            why = '%s %s defined' % (sym, 'still' if not ok else 'not')
        verdict('opt_' + tag, ok, why)
    # main supplies a main(); without it none
    gen('withmain', 'main'); cc('withmain')
    gen('nomain', 'noyywrap'); cc('nomain')
    verdict('opt_main', 'main' in _nm(os.path.join(wd, 'withmain.o')) and 'main' not in _nm(os.path.join(wd, 'nomain.o')), 'main() present exactly with %option main')
    # header-file: self-contained header declaring the public API
    for api, opts in (('nr', 'noyywrap header-file="hdr_nr.h"'), ('r', 'noyywrap reentrant header-file="hdr_r.h"')):
        tag = 'hdr_' + api
        rc, se = gen(tag, opts)
        ok = rc == 0 and os.path.exists(os.path.join(wd, tag + '.h'))
        why = 'flex rc=%s' % rc
        if ok:
            with open(os.path.join(wd, tag + '_user.c'), 'w') as fh:
                if api == 'nr':
                    fh.write('#include "%s.h"\nint use(void){ yybuffer b = yy_scan_string("a"); int t = yylex(); yy_delete_buffer(b); yylex_destroy(); return t + yyleng + (yytext != 0) + yylineno; }\n' % tag)
                else:
                    fh.write('#include "%s.h"\nint use(void){ yyscan_t s; if (yylex_init(&s)) return 1; yybuffer b = yy_scan_string("a", s); int t = yylex(s); t += yyget_leng(s) + (yyget_text(s) != 0) + yyget_lineno(s); yy_delete_buffer(b, s); yylex_destroy(s); return t; }\n' % tag)
            p = subprocess.run(['gcc', '-c', '-Wall', '-Werror=implicit-function-declaration', '-o', tag + '_user.o', tag + '_user.c'], cwd=wd, stdout=subprocess.PIPE, stderr=subprocess.PIPE)
            ok = p.returncode == 0
            why = 'header alone: ' + p.stderr.decode('latin-1')[:200]
            if ok:
                cc(tag)
                p = subprocess.run(['ld', '-r', '-o', tag + '_all.o', tag + '.o', tag + '_user.o'], cwd=wd, stdout=subprocess.PIPE, stderr=subprocess.PIPE)
                ok = p.returncode == 0
                why = 'link: ' + p.stderr.decode()[:150]
        verdict('opt_header_' + api, ok, why)
    # sizes and spliced code
    probes = [
        ('yylmax', 'noyywrap array yylmax=37', r'char yytext\[37\]'),
        ('bufsize', 'noyywrap bufsize=4242', r'4242'),
        ('extra_type', 'noyywrap reentrant extra-type="struct my_extra *"', r'#define YY_EXTRA_TYPE struct my_extra \*'),
        ('yydecl', 'noyywrap yydecl="int my_lex(int vp_param)"', r'int my_lex\(int vp_param\)'),
        ('yyterminate', 'noyywrap yyterminate="return 4711"', r'return 4711'),
        ('pre_action', 'noyywrap pre-action="vp_pre_hook();"', r'vp_pre_hook\(\);'),
        ('post_action', 'noyywrap post-action="vp_post_hook();"', r'vp_post_hook\(\);'),
        ('user_init', 'noyywrap user-init="vp_init_hook();"', r'vp_init_hook\(\);'),
        ('bison_bridge', 'noyywrap bison-bridge', r'YYSTYPE \*\s*yylval'),
        ('bison_locations', 'noyywrap bison-bridge bison-locations', r'YYLTYPE \*\s*yylloc'),
        ('noyyread', 'noyywrap noyyread', None),
        ('noline', 'noyywrap noline', None),
    ]
    for tag, opts, rx in probes:
        rc, se = gen('p_' + tag, opts)
        ok = rc == 0
        why = 'flex rc=%s %s' % (rc, se[:120])
        if ok:
            t = open(os.path.join(wd, 'p_' + tag + '.c'), errors='replace').read()
            if rx is not None:
                ok = re.search(rx, t) is not None
                why = 'generated scanner %s %r' % ('contains' if ok else 'lacks', rx)
            elif tag == 'noline':
                ok = '#line' not in t
                why = '#line directives %s' % ('absent' if ok else 'present despite noline')
            elif tag == 'noyyread':
                ok = re.search(r'static int yyread\s*\(', t) is None or 'M4_MODE_USER_YYREAD' in t
                why = 'default yyread %s' % ('omitted' if ok else 'still generated')
        verdict('opt_' + tag, ok, why)
