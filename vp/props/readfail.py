"""C14, second half: read errors and EINTR in the generated input routine yyread()."""
from .. import corpus, engines as E
from . import common
from .c02 import C


def obligations(ctx):
    quick = ctx.tier == 'quick'
    specs = common.select(ctx, corpus.specs(names=['lit1']))
    cfgs = [C('Cem'), C('r', api='r')] + ([] if quick else [C('c99', api='c99')])
    jobs = []
    for s in specs:
        for c in cfgs:
            js, gens = E.yyread_jobs(ctx, s, c, m=3, k=(3 if quick else 4), cap=3)
            jobs += js
    ctx.run_cbmc(jobs)
    ctx.assume('environment model for yyread(): fread/getc/ferror/clearerr/read/fileno are harness stubs; each call hands over a solver-chosen number of bytes of a symbolic source and may set the error indicator with errno EINTR or EIO; a short count without error happens only at end of file; read(2) delivers nothing when it fails')
    ctx.out_of_bound.append('yyread(): more than 4 environment events per call, requests larger than 3 bytes; a hard error that arrives together with a non-zero count is reported on a later call (not followed)')
