"""C08 yymore, yyless, yyunput, yyinput edit the input stream as documented."""
from .. import corpus, engines as E
from . import common
from .c02 import C


def run(ctx):
    quick = ctx.tier == 'quick'
    jobs = []
    hs = [s for s in corpus.specs(tag='hist') if s.name in (('h_words', 'h_nl') if quick else ('h_words', 'h_nl', 'h_sc'))]
    hs = common.select(ctx, hs)
    cfgs = [C('Cem')] if quick else [C('Cem'), C('B', ['-B']), C('array', options=['array', 'yylmax=16']), C('r', api='r'), C('Cfe', ['-Cfe'])]
    for s in hs:
        for c in cfgs:
            for mode in ('less', 'unput', 'input', 'more'):
                if quick and (mode == 'more' or (s.name == 'h_nl' and mode == 'input')):
                    continue
                lens = ([2, 3] if s.name == 'h_words' else [2]) if quick else ([1, 2, 3, 4] if mode != 'more' else [2, 3])
                js, g = E.e4_jobs(ctx, s, c, mode, lens, maxnul=(1 if (mode == 'input' or not quick) else 0), timeout=(300 if quick else 1800),
                                  mem_mb=(10000 if quick else 24000),
                                  witness_len=(3 if (mode == 'less' and c.name == 'Cem' and s.name == 'h_words') else None))
                if not g.ok:
                    common.gen_ok(ctx, g, s, c, 'E4 ' + mode)
                    continue
                if not common.compile_check(ctx, g, s, c):
                    continue
                jobs += js
    jobs.sort(key=lambda j: j.name)
    ctx.run_cbmc(jobs)
    common.std_assumptions(ctx)
    ctx.assume('one edit per action; after the step the unread input of the scanner is asserted to be exactly the edited stream, the state from which the first-token obligations (C01) apply to the next call')
    ctx.assume('yyunput only within the push-back room of a full user-owned buffer (token of at least two characters consumed), as the property states')
    ctx.out_of_bound.append('edits combined with buffer refills (C03 harness has no edits); tokens longer than 4 bytes')
