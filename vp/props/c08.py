"""C08 yymore, yyless, yyunput, yyinput edit the input stream as documented."""
from .. import corpus, engines as E
from . import common
from .c02 import C


def run(ctx):
    quick = ctx.tier == 'quick'
    jobs = []
    hs = [s for s in corpus.specs(tag='hist') if s.name in (('h_words', 'h_min') if quick else ('h_words', 'h_nl', 'h_sc', 'h_min'))]
    hs = common.select(ctx, hs)
    cfgs = [C('Cem')] if quick else [C('Cem'), C('B', ['-B']), C('array', options=['array', 'yylmax=16']), C('r', api='r'), C('Cfe', ['-Cfe'])]
    for s in hs:
        for c in cfgs:
            for mode in ('less', 'unput', 'input', 'more'):
                # quick: yyinput/yyunput are decided as units (G2) and yymore by the inductive step (E3 more) below;
                # the whole-yylex edit obligations keep yyless and one yyunput/yyinput family
                if quick and (mode == 'more' or (s.name == 'h_min' and mode != 'less')):
                    continue
                if s.name == 'h_words' and mode == 'more':
                    continue      # every token of h_words is a maximal [a-c]+ run: a second token is always the default rule
                lens = ([3] if mode == 'input' else [2, 3]) if quick else ([1, 2, 3, 4] if mode != 'more' else [2, 3, 4])
                js, g = E.e4_jobs(ctx, s, c, mode, lens, maxnul=(1 if (mode == 'input' or not quick) else 0), timeout=(300 if quick else 1800),
                                  mem_mb=(10000 if quick else 24000),
                                  witness_len=(3 if (mode == 'less' and c.name == 'Cem' and s.name == 'h_words') else None))
                if not g.ok:
                    common.gen_ok(ctx, g, s, c, 'E4 ' + mode)
                    continue
                if not common.compile_check(ctx, g, s, c):
                    continue
                jobs += js
    # unit obligations: yyinput()/yyunput() from an arbitrary in-action buffer state, with refills
    u = [s for s in corpus.specs(tag='hist') if s.name in ('h_words', 'h_nl')]
    u = common.select(ctx, u)
    for s in u:
        for c in ([C('Cem')] if quick else [C('Cem'), C('r', api='r'), C('Cfe', ['-Cfe'])]):
            for (cap, m, nops) in ([(3, 2, 1), (3, 2, 2)] if quick else [(3, 2, 1), (4, 3, 1), (3, 2, 2), (4, 2, 3)]):
                js, g = E.g2_jobs(ctx, s, c, cap=cap, m=m, nops=nops, timeout=(300 if quick else 1800),
                                  extra_options=(['yylineno'] if s.name == 'h_nl' else []))
                if not g.ok:
                    common.gen_ok(ctx, g, s, c, 'G2')
                    continue
                jobs += js
    # yymore() across refills: inductive yylex step whose pre-state carries a yymore() prefix (pointer and %array)
    for s in common.select(ctx, corpus.specs(names=['h_min', 'tc_min', 'tc_fixed_trail'] if quick else ['h_min', 'h_words', 'backup', 'tc_min', 'tc_fixed_head', 'tc_fixed_trail', 'tc_both_fixed', 'tc_compete'])):
        for c in [C('Cem'), C('array', options=['array', 'yylmax=16'])] + ([] if quick else [C('r', api='r')]):
            for (bs, m) in ([(2, 1)] if quick else [(2, 1), (3, 1), (3, 2)]):
                js, g = E.e3w_jobs(ctx, s, c, bs, m, maxnul=(0 if quick else 1), witness=(c.name == 'Cem' and (bs, m) == (2, 1) and s.name == 'h_min'),
                                   timeout=(280 if quick else 1800), mem_mb=(10000 if quick else 24000), more=True)
                if not g.ok:
                    common.gen_ok(ctx, g, s, c, 'E3 more')
                    continue
                jobs += js
    jobs.sort(key=lambda j: (0 if j.meta.get('engine') == 'G2' else 1 if j.meta.get('engine') == 'E3' else 2, j.name))
    ctx.run_cbmc(jobs)
    common.std_assumptions(ctx)
    ctx.assume('one edit per action; after the step the unread input of the scanner is asserted to be exactly the edited stream, the state from which the first-token obligations (C01) apply to the next call')
    ctx.assume('yyunput only within the push-back room of a full user-owned buffer (token of at least two characters consumed), as the property states')
    ctx.assume('G2: yyinput()/yyunput() are run as units from an arbitrary in-action buffer state (capacity <= 4, any fill, token, status, <= 3 further source bytes in any chunks); yyunput may stop with the push-back overflow error only when fewer than two bytes are free in front of the scan position after moving the text up')
    ctx.out_of_bound.append('yymore/yyless across refills (yyless never touches the buffer machinery); more than 3 consecutive edits; %array scanners and the c99 back end in the unit obligations (c99 reads through its own yyread(), not YY_INPUT); tokens longer than 4 bytes')
