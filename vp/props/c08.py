"""C08 yymore, yyless, yyunput, yyinput edit the input stream as documented."""
from .. import corpus, engines as E
from . import common
from .c02 import C


def run(ctx):
    quick = ctx.tier == 'quick'
    jobs = []
    hs = [s for s in corpus.specs(tag='hist') if s.name in (('h_words', 'h_nl') if quick else ('h_words', 'h_nl', 'h_sc'))]
    hs = common.select(ctx, hs)
    cfgs = [C('Cem')] if quick else [C('Cem'), C('B', ['-B']), C('array', options=['array', 'yylmax=16']), C('r', api='r'), C('Cfe', ['-Cfe'])]
    for s in hs:
        for c in cfgs:
            for mode in ('less', 'unput', 'input', 'more'):
                if quick and (mode == 'more' or (s.name == 'h_nl' and mode == 'input')):
                    continue
                lens = ([2, 3] if s.name == 'h_words' else [2]) if quick else ([1, 2, 3, 4] if mode != 'more' else [2, 3])
                js, g = E.e4_jobs(ctx, s, c, mode, lens, maxnul=(1 if (mode == 'input' or not quick) else 0), timeout=(300 if quick else 1800),
                                  mem_mb=(10000 if quick else 24000),
                                  witness_len=(3 if (mode == 'less' and c.name == 'Cem' and s.name == 'h_words') else None))
                if not g.ok:
                    common.gen_ok(ctx, g, s, c, 'E4 ' + mode)
                    continue
                if not common.compile_check(ctx, g, s, c):
                    continue
                jobs += js
    # unit obligations: yyinput()/yyunput() from an arbitrary in-action buffer state, with refills
    u = [s for s in corpus.specs(tag='hist') if s.name in ('h_words', 'h_nl')]
    u = common.select(ctx, u)
    for s in u:
        for c in ([C('Cem')] if quick else [C('Cem'), C('r', api='r'), C('Cfe', ['-Cfe'])]):
            for (cap, m, nops) in ([(3, 2, 1), (3, 2, 2)] if quick else [(3, 2, 1), (4, 3, 1), (3, 2, 2), (4, 2, 3)]):
                js, g = E.g2_jobs(ctx, s, c, cap=cap, m=m, nops=nops, timeout=(300 if quick else 1800),
                                  extra_options=(['yylineno'] if s.name == 'h_nl' else []))
                if not g.ok:
                    common.gen_ok(ctx, g, s, c, 'G2')
                    continue
                jobs += js
    jobs.sort(key=lambda j: (0 if j.meta.get('engine') == 'G2' else 1, j.name))
    ctx.run_cbmc(jobs)
    common.std_assumptions(ctx)
    ctx.assume('one edit per action; after the step the unread input of the scanner is asserted to be exactly the edited stream, the state from which the first-token obligations (C01) apply to the next call')
    ctx.assume('yyunput only within the push-back room of a full user-owned buffer (token of at least two characters consumed), as the property states')
    ctx.assume('G2: yyinput()/yyunput() are run as units from an arbitrary in-action buffer state (capacity <= 4, any fill, token, status, <= 3 further source bytes in any chunks); yyunput may stop with the push-back overflow error only when fewer than two bytes are free in front of the scan position after moving the text up')
    ctx.out_of_bound.append('yymore/yyless across refills (yyless never touches the buffer machinery); more than 3 consecutive edits; %array scanners and the c99 back end in the unit obligations (c99 reads through its own yyread(), not YY_INPUT); tokens longer than 4 bytes')
