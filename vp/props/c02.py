"""C02 behaviour independent of table representation / API / back end."""
import re

from .. import corpus, engines as E, harness as H
from . import common


def C(name, flags=(), options=(), api='nr'):
    return H.Config(name, flags=flags, options=options, api=api)


def configs(tier):
    L = [
        C('Cem'),
        C('C', ['-C']), C('Ce', ['-Ce']), C('Cm', ['-Cm']),
        C('Ca', ['-Ca']), C('Cae', ['-Cae']),
        C('Cfe', ['-Cfe']), C('Cf8', ['-Cf', '-8']), C('Cf7', ['-Cf']),
        C('CFe', ['-CFe']), C('CF8', ['-CF', '-8']),
        C('Ce7', ['-Ce', '-7']), C('Cem8', ['-8']),
        C('B', ['-B']), C('CmB', ['-Cm', '-B']), C('I', ['-I']),
        C('array', options=['array', 'yylmax=16']), C('arrayCeB', ['-Ce', '-B'], options=['array', 'yylmax=16']),
        C('r', api='r'), C('rCfe', ['-Cfe'], api='r'), C('rarrayC', ['-C'], options=['array', 'yylmax=16'], api='r'),
        C('c99', api='c99'), C('c99Ce', ['-Ce'], api='c99'), C('c99Cfe', ['-Cfe'], api='c99'),
    ]
    if tier == 'thorough':
        L += [
            C('Caem', ['-Caem']), C('Cam', ['-Cam']), C('Cafe', ['-Cafe']), C('CaFe', ['-CaFe']),
            C('Cfa8', ['-Cfa', '-8']), C('CFa8', ['-CFa', '-8']), C('CF7', ['-CF']),
            C('C7', ['-C', '-7']), C('Cm7B', ['-Cm', '-7', '-B']),
            C('CeI', ['-Ce', '-I']), C('CB', ['-C', '-B']),
            C('rB', ['-B'], api='r'), C('rCF8', ['-CF', '-8'], api='r'), C('rCm7', ['-Cm', '-7'], api='r'),
            C('c99B', ['-B'], api='c99'), C('c99C', ['-C'], api='c99'), C('c99CFe', ['-CFe'], api='c99'),
            C('c99array', options=['array', 'yylmax=16'], api='c99'),
            C('arrayCf8', ['-Cf', '-8'], options=['array', 'yylmax=16']),
        ]
    return L


def compatible(spec, cfg):
    """None if the combination is supported; otherwise the reason it is
    skipped (refusals are checked separately in refusal_obligations)."""
    full = cfg.table_kind in ('fulltbl', 'fullspd')
    if spec.lex_compat and (full or cfg.api != 'nr'):
        return 'lex-compat excludes -Cf/-CF/reentrant'
    if cfg.seven_bit and ('8bit' in spec.tags):
        return '8-bit pattern in 7-bit scanner (refused, see C04)'
    if spec.csize == 128 and '-8' in cfg.flags:
        return 'entry asks for 7bit'
    if full and ('reject' in spec.tags or 'vartrail' in spec.tags or 'bar' in spec.tags and spec.has_trailing):
        return 'REJECT / variable trailing context with -Cf/-CF (refused)'
    return None


def run(ctx):
    cfgs = configs(ctx.tier)
    specs = common.select(ctx, corpus.specs())
    quick = ctx.tier == 'quick'
    pairs = []
    for i, spec in enumerate(specs):
        for k, cfg in enumerate(cfgs):
            if compatible(spec, cfg):
                continue
            pairs.append((spec, cfg))
    e1_len = range(0, 4) if quick else range(0, 6)

    def e1_filter(spec, cfg):
        if quick:
            if cfg.name in ('CF8', 'Cf8', 'rCF8'):
                return 'small' in spec.tags
            if cfg.table_kind == 'fullspd':
                return True
            return 'small' in spec.tags or (hash_pair(spec, cfg, ctx.seed) % 8 == 0)
        return True

    def e2_filter(spec, cfg):
        # quick: every rule set under a third of the configurations (rotating
        # with the seed), every configuration on some rule sets
        if not quick:
            return True
        return cfg.name == 'Cem' or 'small' in spec.tags or hash_pair(spec, cfg, ctx.seed) % 3 == 0

    common.tokenization_pairs(ctx, pairs, e2_filter=e2_filter, e1_tag='e1', e1_lengths=e1_len,
                              e2_cap=10 if quick else 16, e1_filter=e1_filter,
                              full_e1_lengths=(range(0, 3) if quick else range(0, 5)))
    refusal_obligations(ctx)
    common.std_assumptions(ctx)
    ctx.assume('7-bit scanners: inputs assumed < 128, as the property states')
    ctx.out_of_bound.append('C++ class back end; option combinations outside the listed configuration matrix')


def hash_pair(spec, cfg, seed):
    h = seed
    for ch in spec.name + '/' + cfg.name:
        h = (h * 131 + ord(ch)) & 0xffffffff
    return h


def refusal_obligations(ctx):
    """Combinations flex cannot support are refused with a message."""
    import os
    from .. import build
    tree = ctx.ensure_tree()
    cases = [
        ('reject_Cf', '%option reject\n%%\na REJECT;\n.|\\n ;\n%%\n', ['-Cf'], r'REJECT cannot be used with -f or -F'),
        ('reject_CF', '%%\nab REJECT;\n.|\\n ;\n%%\n', ['-CF'], r'REJECT cannot be used with -f or -F'),
        ('vartrail_Cf', '%%\na+/b+c ;\n.|\\n ;\n%%\n', ['-Cf'], r'variable trailing context rules cannot be used with -f or -F'),
        ('Cf_Cm', '%%\na ;\n%%\n', ['-Cfm'], r"-Cf/-CF and -Cm don't make sense together"),
        ('Cf_I', '%%\na ;\n%%\n', ['-Cf', '-I'], r'-Cf/-CF and -I are incompatible'),
        ('Cf_CF', '%%\na ;\n%%\n', ['-Cf', '-CF'], r'mutually exclusive'),
        ('lex_Cf', '%%\na ;\n%%\n', ['-l', '-Cf'], r"Can't use -f or -F with -l option"),
        ('lex_reentrant', '%option reentrant\n%%\na ;\n%%\n', ['-l'], r'-l option'),
        ('cxx_CF', '%%\na ;\n%%\n', ['-+', '-CF'], r"Can't use -\+ with -CF option"),
        ('cxx_reentrant', '%option reentrant\n%%\na ;\n%%\n', ['-+'], r'mutually exclusive'),
    ]
    wd = ctx.subdir('refusals')
    for name, text, flags, rx in cases:
        with open(os.path.join(wd, name + '.l'), 'w') as fh:
            fh.write(text)
        out = os.path.join(wd, name + '.c')
        if os.path.exists(out):
            os.unlink(out)
        rc, so, se = build.flex_run(tree, list(flags) + ['-o', name + '.c', name + '.l'], cwd=wd)
        ok = rc != 0 and re.search(rx, se) is not None
        produced = os.path.exists(out) and os.path.getsize(out) > 0
        st = 'ok' if ok else 'violated'
        ctx.record('refusal_' + name, st, engine='flex-run', detail='rc=%s stderr=%s' % (rc, se.strip()[-160:]))
        if not ok:
            ctx.violation('refusal_' + name, 'unsupported combination %s not refused with the documented message (rc=%s, stderr=%r)' % (flags, rc, se[-200:]),
                          dict(flex_input=text, flags=flags, rc=rc, stderr=se), key=dict(entry=name, engine='flex-run', assertion='refusal'))
