"""C13 generated scanners are memory-safe and release everything they allocate."""
from .. import corpus, engines as E
from . import common
from .c02 import C


def run(ctx):
    quick = ctx.tier == 'quick'
    jobs = []
    # cbmc's pointer, bounds, pointer-primitive, overflow, shift and free()/realloc()
    # precondition checks are ON in every job of this property (checks='safety')
    names = ['lit1', 'nul1', 'backup'] if quick else ['lit1', 'nul1', 'backup', 'bol1', 'tc_fixed_trail', 'sc1', 'high1', 'default1']
    specs = common.select(ctx, corpus.specs(names=names))
    cfgs = [C('Cem'), C('Cfe', ['-Cfe']), C('CFe', ['-CFe']), C('r', api='r')] if quick else \
           [C('Cem'), C('C', ['-C']), C('Cfe', ['-Cfe']), C('Cf8', ['-Cf', '-8']), C('CFe', ['-CFe']), C('CF8', ['-CF', '-8']),
            C('B', ['-B']), C('array', options=['array', 'yylmax=16']), C('r', api='r'), C('c99', api='c99')]
    for s in specs:
        for c in cfgs:
            if quick and c.name != 'Cem' and s.name != 'nul1':
                continue
            lens = range(0, 4) if quick else range(0, 5)
            wd, g = E._prep(ctx, s, c, 'safe', extra_options=E.ALLOC_OPTS)
            if not common.gen_ok(ctx, g, s, c, 'E1'):
                continue
            js, _ = E.e1_jobs(ctx, s, c, lens, maxnul=2, checks='safety', g=g, wd=wd, tagx='_safe',
                              timeout=(240 if quick else 1500), mem_mb=(10000 if quick else 24000))
            jobs += js
            if c.table_kind != 'fullspd':
                j2, _ = E.e2_jobs(ctx, s, c, common.e2_depth(g, 8 if quick else 12), checks='safety', witness=False, g=g, wd=wd, tagx='_safe')
                jobs += j2
    # buffer API histories with the allocation ledger, destroy and release
    for c in ([C('Cem'), C('r', api='r')] if quick else [C('Cem'), C('r', api='r'), C('B', ['-B']), C('Cfe', ['-Cfe'])]):
        for s in specs[:1] if quick else specs[:3]:
            js, g = E.api_jobs(ctx, s, c, [1, 2] if quick else [0, 1, 2, 3], ops=(0, 1, 2, 3, 4), checks='safety',
                               timeout=(240 if quick else 900), tagx='safe')
            jobs += js
    # refill routine and refill step with exact bounds checking
    for c in [C('Cem')] if quick else [C('Cem'), C('r', api='r')]:
        js, g = E.gnb_jobs(ctx, specs[0], c, cap=(3 if quick else 5), m=(2 if quick else 3), tagx='safe')
        for j in js:
            j.checks = 'safety'
        jobs += js
    # capacity invariants over API histories on FILE buffers (REJECT scanners carry a state stack sized from the buffer)
    rej_action = lambda r: '{ if (vp_rej_req) REJECT; return %d; }' % r.num
    for s in common.select(ctx, corpus.specs(names=['lit1'])):
        for c in ([C('Cem'), C('r', api='r')]):
            for rej in (True, False):
                if True:
                    js, g = E.cap_jobs(ctx, s, c, timeout=(240 if quick else 900), checks='functional',
                                       action=(rej_action if rej else None), tagx=('rej' if rej else ''))
                    if not g.ok:
                        common.gen_ok(ctx, g, s, c, 'CAP')
                        continue
                    jobs += js
    jobs.sort(key=lambda j: (0 if j.meta.get('engine') == 'CAP' else 1, common._cost(j)))
    ctx.run_cbmc(jobs)
    common.std_assumptions(ctx)
    ctx.assume('user buffers and allocator blocks are exact-size objects, so an access one byte outside is an out-of-bounds object access for cbmc; fresh heap memory is nondeterministic, so a result that depends on uninitialised memory fails the comparison with the reference')
    ctx.out_of_bound.append('inputs and histories beyond the bounds of the individual harnesses; the flex program itself (C16)')
