"""C04 NUL and 8-bit bytes are ordinary input characters."""
import os
import re

from .. import build, corpus, harness as H
from . import common
from .c02 import C, compatible, hash_pair


def configs(tier):
    L = [C('Cem'), C('C', ['-C']), C('Ce', ['-Ce']), C('Cm', ['-Cm']), C('Cfe', ['-Cfe']), C('Cf8', ['-Cf', '-8']),
         C('CFe', ['-CFe']), C('CF8', ['-CF', '-8']), C('B', ['-B']), C('CeB', ['-Ce', '-B']), C('I', ['-I']),
         C('array', options=['array', 'yylmax=16']), C('arrayB', ['-B'], options=['array', 'yylmax=16']),
         C('r', api='r'), C('rB', ['-B'], api='r'), C('c99', api='c99'), C('c99B', ['-B'], api='c99'),
         C('Ce7', ['-Ce', '-7']), C('Cf7', ['-Cf']), C('CF7', ['-CF'])]
    if tier == 'thorough':
        L += [C('Ca', ['-Ca']), C('CaB', ['-Ca', '-B']), C('CmB', ['-Cm', '-B']), C('c99Cfe', ['-Cfe'], api='c99'),
              C('rCF8', ['-CF', '-8'], api='r'), C('C7B', ['-C', '-7', '-B'])]
    return L


def run(ctx):
    quick = ctx.tier == 'quick'
    specs = [s for s in common.select(ctx, corpus.specs()) if s.tags & {'nul', '8bit', '7bit', 'dot'}]
    pairs = [(s, c) for s in specs for c in configs(ctx.tier) if not compatible(s, c)]

    NULSPECS = ('nul1', 'nul_jam', 'nul_end', 'nul_end2', 'high1', 'nul_share4', 'nul_share2', 'nul_share_first')

    def e1_filter(spec, cfg):
        if quick:
            # the yylex-step budget of the quick tier goes to the rule sets built around NUL / high bytes,
            # under one configuration per table family and mode
            if spec.name not in NULSPECS:
                return False
            return cfg.name in ('Cem', 'Cfe', 'CFe', 'B', 'array', 'r')
        if cfg.name in ('CF8', 'Cf8', 'rCF8'):
            return spec.name in NULSPECS
        return True

    # every yylex step job allows up to two NUL bytes anywhere in the input
    common.tokenization_pairs(ctx, pairs, e1_tag='e1', e1_lengths=[2, 3, 4] if quick else range(0, 6),
                              e2_cap=10 if quick else 16, e1_filter=e1_filter,
                              maxnul=(lambda s_, c_: 2 if (not quick or c_.table_kind != 'compressed' or '-B' in c_.flags) else 1),
                              full_e1_lengths=[2, 3, 4] if quick else range(0, 6),
                              sort_key=(lambda j: (0 if j.meta.get('engine') == 'E2' else 1 if any(t in str(j.meta.get('config')) for t in ('Cf', 'CF', 'B')) else 2, common._cost(j))),
                              e2_filter=(lambda s_, c_: (hash_pair(s_, c_, ctx.seed) % 2 == 0 or s_.name in NULSPECS)) if quick else None)
    seven_bit_refusals(ctx)
    common.std_assumptions(ctx)
    ctx.assume('7-bit scanners: inputs assumed < 128, as the property states')
    ctx.out_of_bound.append('more than two NUL bytes per yylex step (E1); NUL relative to buffer refills is covered by C03/C08 harnesses')


def seven_bit_refusals(ctx):
    """flex refuses patterns that need 8-bit characters in a 7-bit scanner."""
    tree = ctx.ensure_tree()
    wd = ctx.subdir('sevenbit')
    cases = [
        ('lit_hi', '%%\n\\x80 ;\n%%\n', ['-7'], True),
        ('lit_377', '%%\n\\377 ;\n%%\n', ['-7'], True),
        ('ccl_hi', '%%\n[a\\xe9] ;\n%%\n', ['-7'], True),
        ('range_hi', '%%\n[\\x7e-\\x81] ;\n%%\n', ['-7'], True),
        ('str_hi', '%%\n"a\\200" ;\n%%\n', ['-7'], True),
        ('opt7', '%option 7bit\n%%\n\\xff ;\n%%\n', [], True),
        ('Cf_default7', '%%\n\\xff ;\n%%\n', ['-Cf'], True),
        ('CF_default7', '%%\n\\xff ;\n%%\n', ['-CF'], True),
        ('ok_7f', '%%\n\\x7f ;\n%%\n', ['-7'], False),
        ('ok_neg', '%%\n[^a] ;\n%%\n', ['-7'], False),
        ('ok_8', '%%\n\\xff ;\n%%\n', ['-8', '-Cf'], False),
        ('ok_dot', '%%\n. ;\n%%\n', ['-7'], False),
    ]
    for name, text, flags, refuse in cases:
        with open(os.path.join(wd, name + '.l'), 'w') as fh:
            fh.write(text)
        rc, so, se = build.flex_run(tree, list(flags) + ['-o', name + '.c', name + '.l'], cwd=wd)
        if refuse:
            ok = rc != 0 and re.search(r'requires -8 flag', se) is not None
        else:
            ok = rc == 0
        ctx.record('sevenbit_' + name, 'ok' if ok else 'violated', engine='flex-run', detail='rc=%s %s' % (rc, se.strip()[-120:]))
        if not ok:
            ctx.violation('sevenbit_' + name, '7-bit request %s: expected %s, got rc=%s stderr=%r' % (flags, 'refusal' if refuse else 'acceptance', rc, se[-200:]),
                          dict(flex_input=text, flags=flags, rc=rc, stderr=se), key=dict(entry=name, engine='flex-run', assertion='7bit refusal'))
