"""C14 allocation and read failures are reported, never absorbed."""
from .. import corpus, engines as E
from . import common
from .c02 import C


def run(ctx):
    quick = ctx.tier == 'quick'
    jobs = []
    specs = common.select(ctx, corpus.specs(names=['lit1'] if quick else ['lit1', 'sc1', 'rej1']))
    cfgs = [C('Cem')] if quick else [C('Cem'), C('B', ['-B']), C('Cfe', ['-Cfe']), C('array', options=['array', 'yylmax=16'])]
    for s in specs:
        for c in cfgs:
            # the index of the failing allocation request is a solver variable
            js, g = E.api_jobs(ctx, s, c, [2] if quick else [1, 2, 3], ops=((0, 1) if quick else (0, 1, 2, 3, 4)), alloc_fail=True, checks='safety',
                               timeout=(240 if quick else 1200), witness_len=2, tagx='af', fail_ats=tuple(range(0, 7)))
            if not common.gen_ok(ctx, g, s, c, 'E4b'):
                continue
            jobs += js
    # reentrant: yylex_init must return non-zero with errno ENOMEM
    for s in specs[:1]:
        js, g = E.api_jobs(ctx, s, C('r', api='r'), [1] if quick else [1, 2], ops=(1,), alloc_fail=True, checks='functional',
                           timeout=(280 if quick else 1800), mem_mb=(12000 if quick else 24000), tagx='afr', fail_ats=tuple(range(0, 8)))
        jobs += js
    ctx.run_cbmc(jobs)
    try:
        from . import readfail
        readfail.obligations(ctx)
    except ImportError:
        ctx.notes.append('read-error / EINTR obligations for the generated yyread(): not built in this revision')
    common.std_assumptions(ctx)
    ctx.assume('exactly one allocation request fails (one query per request index 0..7, inputs symbolic); the fatal-error hook (YY_FATAL_ERROR override) ends the run; cbmc pointer checks are on, so use of the failed block would be reported')
    ctx.out_of_bound.append('failures of more than one request; yytables_fload (C15)')
