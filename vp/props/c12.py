"""C12 scanner instances are isolated from each other (partial: no thread schedules)."""
import os
import re
import subprocess

from .. import corpus, engines as E, harness as H
from . import common
from .c02 import C


def run(ctx):
    quick = ctx.tier == 'quick'
    specs = common.select(ctx, corpus.specs(names=['lit1', 'sc1', 'bol1'] if quick else ['lit1', 'sc1', 'bol1', 'backup', 'rej1', 'ln_basic', 'tc_fixed_trail']))
    cfgs = [C('r', api='r'), C('c99', api='c99')] if quick else [C('r', api='r'), C('c99', api='c99'), C('rCfe', ['-Cfe'], api='r'), C('rB', ['-B'], api='r'), C('rarray', options=['array', 'yylmax=16'], api='r')]
    jobs = []
    for s in specs:
        for c in cfgs:
            wd, g = E._prep(ctx, s, c, 'iso', extra_options=E.ALLOC_OPTS)
            if not common.gen_ok(ctx, g, s, c, 'iso'):
                continue
            # (1) no writable static-lifetime object in a reentrant scanner: all state is per instance
            obj = os.path.join(wd, 'scanner.o')
            p = subprocess.run(['gcc', '-c', '-w', '-o', obj, g.cpath], stdout=subprocess.PIPE, stderr=subprocess.PIPE)
            name = 'statics_%s_%s' % (s.name, c.name)
            if p.returncode != 0:
                common.compile_check(ctx, g, s, c)
                continue
            q = subprocess.run(['nm', obj], stdout=subprocess.PIPE)
            shared = [l.split()[-1] for l in q.stdout.decode().splitlines() if re.search(r' [bBdDcC] ', l)]
            st = 'ok'
            if shared:
                st = ctx.violation(name, 'reentrant scanner has writable static objects shared by all instances: %s' % shared[:8],
                                   dict(flex_input=g.ltext, flex_args=g.args, symbols=shared), key=dict(entry=s.name, config=c.name, engine='symbol-table', assertion='no shared writable state'))
                st = 'violated' if st == 'violation' else 'known-finding'
            ctx.record(name, st, engine='symbol-table', entry=s.name, config=c.name, detail='writable static objects: %s' % (shared or 'none'))
            # (2) non-interference of two instances
            lens = [1, 2] if quick else [0, 1, 2, 3]
            if c.api == 'c99' and quick:
                lens = [1]
            js, _ = E.iso_jobs(ctx, s, c, lens, witness_len=(2 if (s.name == 'lit1' and c.name == 'r') else None), timeout=(240 if quick else 1200))
            jobs += js
    ctx.run_cbmc(jobs)
    common.std_assumptions(ctx)
    ctx.assume('non-interference argument: if stepping instance B changes no byte of instance A (asserted by snapshot comparison) and a scanner has no writable static objects (symbol table), any interleaving or thread schedule of distinct instances equals running each alone; libc (malloc, stdio) is assumed thread-safe')
    ctx.out_of_bound.append('instruction-level thread schedules (cbmc thread support does not scale to two scanners); C++ lexer objects; link of differently prefixed scanners is checked under C19')
