"""C12 scanner instances are isolated from each other (partial: no thread schedules)."""
import os
import re
import subprocess

from .. import build, corpus, engines as E, harness as H
from . import common
from .c02 import C


def run(ctx):
    quick = ctx.tier == 'quick'
    specs = common.select(ctx, corpus.specs(names=['lit1', 'sc1', 'bol1', 'backup', 'tc_fixed_trail'] if quick else ['lit1', 'sc1', 'bol1', 'backup', 'rej1', 'ln_basic', 'tc_fixed_trail']))
    cfgs = [C('r', api='r'), C('c99', api='c99')] if quick else [C('r', api='r'), C('c99', api='c99'), C('rCfe', ['-Cfe'], api='r'), C('rB', ['-B'], api='r'), C('rarray', options=['array', 'yylmax=16'], api='r')]
    jobs = []
    for s in specs:
        for c in cfgs:
            wd, g = E._prep(ctx, s, c, 'iso', extra_options=E.ALLOC_OPTS)
            if not common.gen_ok(ctx, g, s, c, 'iso'):
                continue
            # (1) no writable static-lifetime object in a reentrant scanner: all state is per instance
            obj = os.path.join(wd, 'scanner.o')
            p = subprocess.run(['gcc', '-c', '-w', '-o', obj, g.cpath], stdout=subprocess.PIPE, stderr=subprocess.PIPE)
            name = 'statics_%s_%s' % (s.name, c.name)
            if p.returncode != 0:
                common.compile_check(ctx, g, s, c)
                continue
            q = subprocess.run(['nm', obj], stdout=subprocess.PIPE)
            shared = [l.split()[-1] for l in q.stdout.decode().splitlines() if re.search(r' [bBdDcC] ', l)]
            st = 'ok'
            if shared:
                st = ctx.violation(name, 'reentrant scanner has writable static objects shared by all instances: %s' % shared[:8],
                                   dict(flex_input=g.ltext, flex_args=g.args, symbols=shared), key=dict(entry=s.name, config=c.name, engine='symbol-table', assertion='no shared writable state'))
                st = 'violated' if st == 'violation' else 'known-finding'
            ctx.record(name, st, engine='symbol-table', entry=s.name, config=c.name, detail='writable static objects: %s' % (shared or 'none'))
            # (2) non-interference of two instances
            lens = [1, 2, 3] if quick else [0, 1, 2, 3, 4]
            if c.api == 'c99' and quick:
                lens = [1, 2]
            js, _ = E.iso_jobs(ctx, s, c, lens, witness_len=(2 if (s.name == 'lit1' and c.name == 'r') else None), timeout=(240 if quick else 1200))
            jobs += js
    ctx.run_cbmc(jobs)
    prefix_link(ctx)
    common.std_assumptions(ctx)
    ctx.assume('non-interference argument: if stepping instance B changes no byte of instance A (asserted by snapshot comparison) and a scanner has no writable static objects (symbol table), any interleaving or thread schedule of distinct instances equals running each alone; libc (malloc, stdio) is assumed thread-safe')
    ctx.out_of_bound.append('instruction-level thread schedules (cbmc thread support does not scale to two scanners); C++ lexer objects; prefixed scanners: symbol-table facts over the listed option sets (the c99 back end does not rename its new API functions: finding F17, C19)')


PREFIX_SETS = [
    ('nr', []), ('nr_lineno_stack', ['yylineno', 'stack']), ('nr_array', ['array']), ('nr_tables', ['tables-file="t.tables"']),
    ('nr_bridge', ['bison-bridge']), ('nr_locations', ['bison-bridge', 'bison-locations']),
    ('r', ['reentrant']), ('r_lineno_stack', ['reentrant', 'yylineno', 'stack']), ('r_extra', ['reentrant', 'extra-type="int *"']),
    ('r_bridge', ['reentrant', 'bison-bridge']), ('r_locations', ['reentrant', 'bison-bridge', 'bison-locations']),
    ('r_tables', ['reentrant', 'tables-file="t.tables"']), ('r_debug', ['reentrant', 'debug']),
]


def prefix_link(ctx):
    """Differently prefixed scanners must not define a common external symbol: for each option set two scanners
    (prefixes aa / bb) are generated and compiled; every external symbol either defines must carry its prefix,
    no symbol may be defined by both, and ld -r must combine them."""
    tree = ctx.ensure_tree()
    wd = ctx.subdir('prefix_link')
    sets = PREFIX_SETS if ctx.tier != 'quick' else PREFIX_SETS
    for tag, opts in sets:
        defs = {}
        ok = True
        why = []
        for pfx in ('aa', 'bb'):
            base = '%s_%s' % (tag, pfx)
            text = ('%%option noyywrap prefix="%s" %s\n%%{\n#define YYSTYPE int\ntypedef struct { int l; } vp_lloc; \n#define YYLTYPE vp_lloc\n%%}\n%%%%\nab return 1;\n.|\\n return 2;\n%%%%\n'
                    % (pfx, ' '.join(opts)))
            with open(os.path.join(wd, base + '.l'), 'w') as fh:
                fh.write(text)
            rc, so, se = build.flex_run(tree, ['-L', '-o', base + '.c', base + '.l'], cwd=wd)
            if rc != 0:
                ok = False; why.append('flex rc=%s %s' % (rc, se[-150:])); break
            p = subprocess.run(['gcc', '-c', '-w', '-o', base + '.o', base + '.c'], cwd=wd, stdout=subprocess.PIPE, stderr=subprocess.PIPE)
            if p.returncode != 0:
                ok = False; why.append('does not compile: ' + p.stderr.decode('latin-1')[:200]); break
            q = subprocess.run(['nm', '-g', '--defined-only', base + '.o'], cwd=wd, stdout=subprocess.PIPE)
            syms = [l.split()[-1] for l in q.stdout.decode().splitlines() if l.strip()]
            defs[pfx] = syms
            bad = [x for x in syms if not x.startswith(pfx)]
            if bad:
                ok = False; why.append('prefix %s: external symbols without the prefix: %s' % (pfx, bad[:6]))
        if len(defs) == 2:
            both = sorted(set(defs['aa']) & set(defs['bb']))
            if both:
                ok = False; why.append('defined by both scanners: %s' % both[:6])
            p = subprocess.run(['ld', '-r', '-o', tag + '_both.o', tag + '_aa.o', tag + '_bb.o'], cwd=wd, stdout=subprocess.PIPE, stderr=subprocess.PIPE)
            if p.returncode != 0:
                ok = False; why.append('ld -r: ' + p.stderr.decode('latin-1')[:200])
        name = 'prefix_link_' + tag
        st = 'ok'
        if not ok:
            st = ctx.violation(name, 'scanners with different prefixes clash or leak unprefixed symbols (%s): %s' % (' '.join(opts) or 'default', '; '.join(why)),
                               dict(options=opts), key=dict(entry=tag, engine='symbol-table', assertion='prefixed scanners link'))
            st = 'violated' if st == 'violation' else 'known-finding'
        ctx.record(name, st, engine='symbol-table', entry=tag, detail='; '.join(why) or 'all external symbols of both scanners carry their prefix; ld -r combines them')
