"""C17 'rule cannot be matched' and default-rule warnings are exact."""
import os
import re

from .. import build, corpus, engines as E, harness as H, pattern as P, cbmc
from . import common
from .c02 import C


def useful_rules(spec, limit=20000):
    """Independent computation: a rule is selectable iff some reachable state
    of the subset automaton (per start condition and line-start flag) has it as
    its first accepting rule.  Returns (set of rule numbers, states explored)."""
    rules = spec.all_rules
    useful = set()
    explored = 0
    for sc in range(len(spec.sconds)):
        for bol in (0, 1):
            act = [r for r in rules if spec.active(r, sc, bol)]
            start = tuple((True, 0) for _ in act)
            seen = {start}
            todo = [start]
            while todo:
                st = todo.pop()
                explored += 1
                if explored > limit:
                    return None, explored
                # byte classes: only distinguish bytes by the sets used
                for c in spec_byte_reps(spec):
                    nxt = []
                    acc = None
                    alive = False
                    for (r, (first, m)) in zip(act, st):
                        m2 = P.auto_step(r.full, (first, m), c)
                        nxt.append((False, m2))
                        if m2:
                            alive = True
                        if acc is None and (m2 & r.full.last):
                            acc = r.num
                    if not alive:
                        continue
                    if acc is not None:
                        useful.add(acc)
                    t = tuple(nxt)
                    if t not in seen:
                        seen.add(t)
                        todo.append(t)
    return useful, explored


def spec_all_matches(s):
    """True when the manual's weaker promise applies: REJECT, or trailing context with variable head and trail
    (a '|' action shared with a trailing-context rule counts as variable, as the manual says)."""
    if 'reject' in s.tags:
        return True
    bar = any(r.fallthrough for r in s.rules)
    for r in s.rules:
        if r.trail is not None:
            if bar or (P.fixed_length(r.head) is None and P.fixed_length(r.trail) is None):
                return True
    return False


def spec_byte_reps(spec):
    """One representative byte per class of bytes that no pattern set separates."""
    if hasattr(spec, '_reps'):
        return spec._reps
    sets = set()
    for r in spec.all_rules:
        for s in r.full.sets:
            sets.add(s)
    sig = {}
    for c in range(spec.csize):
        k = tuple(1 if s >> c & 1 else 0 for s in sets)
        sig.setdefault(k, c)
    spec._reps = sorted(sig.values())
    return spec._reps


def run(ctx):
    quick = ctx.tier == 'quick'
    tree = ctx.ensure_tree()
    specs = [s for s in common.select(ctx, corpus.specs()) if ('warn' in s.tags or (not quick and not (s.tags & {'reject', 'vartrail', 'bar', 'big'})))]
    specs = [s for s in specs if not s.lex_compat and not any(r.fallthrough for r in s.rules)]
    specs += [s for s in corpus.specs(names=['w_vartrail_nodefault', 'tc_var', 'tc_var2', 'rej1']) if s not in specs]
    cfg = C('Cem')
    jobs = []
    for s in specs:
        nodefault = s.has_opt('nodefault')
        wd, g = E._prep(ctx, s, cfg, 'warn', extra_options=E.ALLOC_OPTS, keep_lines=False)
        if not common.gen_ok(ctx, g, s, cfg, 'warnings'):
            continue
        # REJECT / variable trailing context is decided from the rule text by the independent parser,
        # not from what flex generated (a generator that misclassifies a rule must not escape the exact check)
        if 'dangerous trailing context' in g.stderr or spec_all_matches(s):
            # REJECT / variable trailing context: flex promises only that it gives no FALSE warning
            useful0, _ = useful_rules(s)
            if useful0 is not None:
                lines0 = g.ltext.split('\n')
                bad = []
                k0, in20 = 0, False
                rl = {}
                for i0, ln0 in enumerate(lines0, 1):
                    if ln0.startswith('%%'):
                        if in20:
                            break
                        in20 = True
                        continue
                    if in20 and ln0.strip() and ln0.strip() != '}' and not ln0.rstrip().endswith('{') and '<<EOF>>' not in ln0:
                        k0 += 1
                        rl[i0] = k0
                for m0 in re.finditer(r':(\d+): warning, rule cannot be matched', g.stderr):
                    r0 = rl.get(int(m0.group(1)))
                    if r0 is not None and r0 in useful0:
                        bad.append('rule %d is warned as unmatchable but some input selects it' % r0)
                if 'default rule can be matched' in g.stderr and s.default_rule.num not in useful0:
                    bad.append('-s warns that the default rule can be matched, but no input reaches it')
                st0 = 'ok'
                if bad:
                    st0 = ctx.violation('warn_%s_nofalse' % s.name, '; '.join(bad), dict(flex_input=g.ltext, stderr=g.stderr),
                                        key=dict(entry=s.name, engine='flex-run', assertion='no false warning'))
                    st0 = 'violated' if st0 == 'violation' else 'known-finding'
                ctx.record('warn_%s_nofalse' % s.name, st0, engine='flex-run', entry=s.name,
                           detail='; '.join(bad) or 'REJECT/variable trailing context rule set: no false warning')
            continue
        # warnings of the real binary -> rule numbers (via the line of each rule in the rendered input)
        lines = g.ltext.split('\n')
        rule_line = {}
        k = 0
        in2 = False
        for i, ln in enumerate(lines, 1):
            if ln.startswith('%%'):
                if in2:
                    break
                in2 = True
                continue
            if in2 and ln.strip() and ln.strip() not in ('}',) and not ln.rstrip().endswith('{') and '<<EOF>>' not in ln:
                k += 1
                rule_line[i] = k
        warned = set()
        for m in re.finditer(r':(\d+): warning, rule cannot be matched', g.stderr):
            if int(m.group(1)) in rule_line:
                warned.add(rule_line[int(m.group(1))])
        dflt_warn = 'default rule can be matched' in g.stderr
        useful, explored = useful_rules(s)
        if useful is None:
            ctx.record('warn_%s' % s.name, 'inconclusive', reason='reference automaton too large')
            continue
        truth_useless = set(r.num for r in s.rules) - useful
        nstates = (H.table_facts(g).get('lastdfa') or 8) + 1
        n = min(nstates, 5 if quick else 7)
        exact = nstates <= n
        for r in s.rules:
            want_warn = r.num in truth_useless
            got_warn = r.num in warned
            name = 'warn_%s_rule%d' % (s.name, r.num)
            if want_warn != got_warn:
                # disagreement between flex and the independent automaton: decide on the generated scanner
                ctx.notes.append('%s: flex %s, reference says %s' % (name, 'warns' if got_warn else 'is silent', 'unmatchable' if want_warn else 'matchable'))
            # solver query on the generated scanner itself
            if got_warn:
                # must be unmatchable: prove no input up to n selects it
                js = warn_jobs(ctx, s, cfg, g, wd, r.num, range(1, n + 1), expect='proved', nodefault=nodefault)
                for j in js:
                    j.meta['claim'] = 'rule %d warned as unmatchable: no input of length %s selects it%s' % (r.num, j.meta['bound'], '' if exact else ' (bound below the state count)')
                jobs += js
            else:
                js = warn_jobs(ctx, s, cfg, g, wd, r.num, [n], expect='witness', nodefault=nodefault, anylen=True)
                jobs += js
        # default rule with -s / nodefault
        if nodefault:
            d = s.default_rule.num
            dflt_useful = d in useful
            ctx.record('warn_%s_default' % s.name, 'ok' if dflt_useful == dflt_warn else 'violated', engine='flex-run',
                       detail='-s: flex %s; reference: default rule %s' % ('warns' if dflt_warn else 'silent', 'reachable' if dflt_useful else 'unreachable'))
            if dflt_useful != dflt_warn:
                ctx.violation('warn_%s_default' % s.name, '-s default-rule warning is not exact (flex %s, default rule %s)'
                              % ('warns' if dflt_warn else 'is silent', 'reachable' if dflt_useful else 'unreachable'),
                              dict(flex_input=g.ltext, stderr=g.stderr), key=dict(entry=s.name, engine='flex-run', assertion='default rule warning'))
        # -w: same scanner, no warnings
        g2 = H.gen_scanner(tree, wd, s, C('Cem', ['-w']), extra_options=E.ALLOC_OPTS, base='scanner_w')
        same = g2.ok and _strip(g2.text) == _strip(g.text)
        quiet = 'warning' not in g2.stderr
        ctx.record('warn_%s_w' % s.name, 'ok' if (same and quiet) else 'violated', engine='flex-run', detail='-w identical=%s quiet=%s' % (same, quiet))
        if not (same and quiet):
            ctx.violation('warn_%s_w' % s.name, '-w must suppress warnings without changing the scanner (identical=%s, quiet=%s)' % (same, quiet),
                          dict(flex_input=g.ltext, stderr=g2.stderr), key=dict(entry=s.name, engine='flex-run', assertion='-w'))
    ctx.run_cbmc(jobs)
    # a witness job that could not find an input = flex is silent about a rule no input (up to the bound) selects
    for o in ctx.obligations:
        if o.get('status') == 'vacuous' and str(o.get('name', '')).startswith('warnw_'):
            pass
    common.std_assumptions(ctx)
    ctx.assume('reachability bound = number of DFA states of the generated scanner (complete for the automaton) capped at 5 (quick) / 7 (thorough); evidence says when the cap applied')
    ctx.out_of_bound.append('rule sets with REJECT / variable trailing context (flex promises only no false warning there)')


def _strip(t):
    return re.sub(r'scanner_w', 'scanner', t)


def warn_jobs(ctx, spec, cfg, g, wd, rule, lengths, expect, nodefault=False, anylen=False):
    jobs = []
    for n in lengths:
        src = os.path.join(wd, 'warn_r%d_n%d_%s.c' % (rule, n, expect[0]))
        k = 0 if ctx.tier == 'quick' else min(1, n)      # NUL budget of the inputs (quick: NUL-free inputs)
        txt = H.e1_harness(g, cfg, spec, n, k, nodefault=nodefault, witness=rule)
        if expect == 'proved':
            txt = txt.replace('VP_ASSERT(!(VP_N > 0 && t == VP_WITNESS_RULE && tl == VP_N), "WITNESS: long token of chosen rule reachable");',
                              'VP_ASSERT(!(VP_N > 0 && t == VP_WITNESS_RULE), "a rule flex calls unmatchable is never selected");')
        else:
            txt = txt.replace('VP_ASSERT(!(VP_N > 0 && t == VP_WITNESS_RULE && tl == VP_N), "WITNESS: long token of chosen rule reachable");',
                              'VP_ASSERT(!(VP_N > 0 && t == VP_WITNESS_RULE), "WITNESS: a rule flex does not warn about is selected by some input");')
        with open(src, 'w') as fh:
            fh.write(txt)
        prefix = 'warnw' if expect == 'witness' else 'warnp'
        b = E.scanner_bounds(g, n, k)
        # yy_scan_buffer source: no refill continues the scan, each NUL takes a NUL arm once, the end of the buffer is met once
        b.update({'outer': 1, 'goto_match_cont': 1, 'goto_match_nul': 1 + k, 'goto_find_action_nul': 1 + k,
                  'goto_find_action_last': 2, 'goto_do_action': 1})
        j = cbmc.Job('%s_%s_r%d_n%d' % (prefix, spec.name, rule, n), wd, [src], b,
                     includes=[wd, H.HDIR], harness_bound=None, timeout=(240 if ctx.tier == 'quick' else 1200), mem_mb=10000,
                     gen_file=g.cpath, expect=expect,
                     meta=dict(engine='E1', entry=spec.name, config=cfg.name, bound='len=%d nul<=%d' % (n, k), flex_input=g.ltext, flex_args=g.args,
                               on_vacuous=lambda msg, ctx=ctx, spec=spec, rule=rule, g=g: ctx.violation(
                                   'warn_%s_rule%d_missing' % (spec.name, rule),
                                   'flex does not warn about rule %d but no input up to the bound selects it' % rule,
                                   dict(flex_input=g.ltext, stderr=g.stderr), key=dict(entry=spec.name, engine='E1', assertion='missing warning'))))
        jobs.append(j)
    return jobs
