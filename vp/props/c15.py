"""C15 serialized tables round-trip and follow the documented file format (partial)."""
import os
import struct
import subprocess

from .. import build, corpus, e5, harness as H, engines as E
from . import common
from .c02 import C

DRIVER = r'''
#include <stdio.h>
#include <string.h>
static int vp_tok[64], vp_len[64], vp_n;
#include "%(scanner)s"
/* prints the token stream (rule,length) of every string over the given byte set up to length L */
int main(int argc, char **argv) {
#if %(tables)d
  FILE *tf = fopen(argv[1], "rb");
  if (!tf) { puts("cannot open tables"); return 3; }
  int rc = yytables_fload(tf);
  fclose(tf);
  if (rc != 0) { printf("LOADFAIL %%d\n", rc); return 2; }
#endif
  static const unsigned char reps[] = { %(reps)s };
  int nr = (int)sizeof reps, L = %(L)d;
  unsigned char s[8];
  long total = 1, cnt = 0;
  for (int len = 0; len <= L; len++) {
    long combos = 1; for (int i = 0; i < len; i++) combos *= nr;
    for (long c = 0; c < combos; c++) {
      long x = c;
      for (int i = 0; i < len; i++) { s[i] = reps[x %% nr]; x /= nr; }
      yybuffer b = yy_scan_bytes((const char *)s, len);
      int t;
      printf("%%ld:", cnt++);
      while ((t = yylex()) != 0) printf(" %%d/%%d", t, yyleng);
      printf("\n");
      yy_delete_buffer(b);
    }
  }
#if %(tables)d
  yytables_destroy();
#endif
  yylex_destroy();
  return 0;
}
'''


def run(ctx):
    quick = ctx.tier == 'quick'
    jobs = [
        e5.kernel_job(ctx, 'k_tblcompress.c', name='tblcompress', harness_bound=8, timeout=600, checks='safety'),
        e5.kernel_job(ctx, 'k_tblcompress.c', name='tblcompress_w', defines=['VP_WITNESS'], harness_bound=8, timeout=600, expect='witness'),
    ]
    # the generated reader on file images with symbolic table contents: sets in any order, element widening, damaged files
    for s in common.select(ctx, corpus.specs(names=['lit1'])):
        for c in ([C('Cem'), C('Cae', ['-Cae'])] if quick else [C('Cem'), C('Cae', ['-Cae']), C('r', api='r')]):
            js, g = E.tload_jobs(ctx, s, c, cuts=(('OW',) if c.name == 'Cem' else ()))
            jobs += js
    ctx.run_cbmc(jobs)
    ctx.functions.update(['yytbl_data_compress', 'min_int_size', 'yytbl_data_geti', 'yytbl_data_seti'])
    tree = ctx.ensure_tree()
    names = ['lit1', 'sc1', 'bol1', 'tc_fixed_trail', 'nul1', 'rej1', 'kw_many'] if quick else None
    specs = [s for s in common.select(ctx, corpus.specs(names=names)) if 'combi' not in s.tags and not s.lex_compat]
    if not quick:
        specs = specs[:40]
    optsets = [('Cem', []), ('C', ['-C']), ('Ce', ['-Ce']), ('Cfe', ['-Cfe']), ('Cf8', ['-Cf', '-8']), ('CFe', ['-CFe']), ('CF8', ['-CF', '-8']), ('Ca', ['-Ca']),
               ('Cfae', ['-Cfae']), ('CFae', ['-CFae']), ('Cfa8', ['-Cfa', '-8'])]
    if quick:
        optsets = [o for o in optsets if o[0] in ('Cem', 'Cfe', 'CFe', 'Cf8', 'Ca', 'Cfae', 'CFae')]
    for s in specs:
        for oname, opts in optsets:
            full = any(o.startswith('-Cf') or o.startswith('-CF') for o in opts)
            if full and (s.tags & {'reject', 'vartrail'} or (s.has_trailing and 'bar' in s.tags)):
                continue
            roundtrip(ctx, tree, s, oname, opts, L=((2 if s.name in ('c_like', 'kw_many') else 3) if quick else 4))
    format_checks(ctx, tree)
    ctx.assume('behavioural equality of serialized and in-code tables is decided by running both real scanners on EVERY string up to length 3/4 over one representative byte per input class plus NUL and 0xFF (exhaustive enumeration of a finite set, not a solver query: the generated reader exceeded the cbmc budget, see DESIGN); the solver decides the width-compression kernel of the writer')
    ctx.assume('cbmc 6.11 + MiniSat sound')
    ctx.out_of_bound.append('solver-level round trip through yytbl_data_fwrite / yytbl_data_load (no verdict within 500 s even for a 464-byte file)')


def reps_for(s):
    from .c17 import spec_byte_reps
    r = list(spec_byte_reps(s))
    for b in (0, 255, 10):
        if b not in r and b < s.csize:
            r.append(b)
    return r[:9]


def roundtrip(ctx, tree, s, oname, opts, L):
    wd = ctx.subdir('rt_%s_%s' % (s.name, oname))
    text = lambda extra: s.render(lambda r: 'return %d;' % H.spec_action_id(s, r), extra_options=['noyywrap'] + extra,
                                  eof_action=lambda k, e: 'return 0;')
    outs = {}
    for kind, extra in (('code', []), ('file', ['tables-file="t.tables"'])):
        with open(os.path.join(wd, kind + '.l'), 'w', encoding='latin-1') as fh:
            fh.write(text(extra))
        rc, so, se = build.flex_run(tree, list(s.flags) + opts + ['-L', '-o', kind + '.c', kind + '.l'], cwd=wd)
        if rc != 0:
            ctx.record('rt_%s_%s' % (s.name, oname), 'error', engine='flex-run', detail='flex rc=%s %s' % (rc, se[:200]))
            ctx.violation('rt_%s_%s' % (s.name, oname), 'flex refuses %s with %s %s: %s' % (s.name, opts, kind, se[:200]), dict(stderr=se),
                          key=dict(entry=s.name, config=oname, engine='flex-run', assertion='generation'))
            return
        reps = reps_for(s)
        with open(os.path.join(wd, 'drv_%s.c' % kind), 'w') as fh:
            fh.write(DRIVER % dict(scanner=kind + '.c', tables=1 if kind == 'file' else 0, reps=','.join(str(b) for b in reps), L=L))
        p = subprocess.run(['gcc', '-w', '-O1', '-fsanitize=address,undefined', '-o', 'drv_' + kind, 'drv_%s.c' % kind], cwd=wd, stdout=subprocess.PIPE, stderr=subprocess.PIPE)
        if p.returncode != 0:
            ctx.violation('rt_%s_%s' % (s.name, oname), '%s scanner does not compile: %s' % (kind, p.stderr.decode('latin-1')[:300]), {},
                          key=dict(entry=s.name, config=oname, engine='compile', assertion='compiles'))
            ctx.record('rt_%s_%s' % (s.name, oname), 'violated', engine='compile')
            return
        q = subprocess.run(['./drv_' + kind, 't.tables'], cwd=wd, stdout=subprocess.PIPE, stderr=subprocess.PIPE, timeout=300)
        outs[kind] = (q.returncode, q.stdout, q.stderr[-300:])
    same = outs['code'][0] == 0 and outs['file'][0] == 0 and outs['code'][1] == outs['file'][1]
    nstr = outs['code'][1].count(b'\n')
    st = 'ok'
    if not same:
        why = 'exit %s/%s' % (outs['code'][0], outs['file'][0])
        a, b = outs['code'][1].split(b'\n'), outs['file'][1].split(b'\n')
        for x, y in zip(a, b):
            if x != y:
                why += '; first difference: in-code %r, serialized %r' % (x[:60], y[:60])
                break
        why += ' ' + outs['file'][2].decode('latin-1')[:200]
        st = ctx.violation('rt_%s_%s' % (s.name, oname), 'scanner with --tables-file differs from in-code tables (%s %s): %s' % (s.name, opts, why),
                           dict(options=opts), key=dict(entry=s.name, config=oname, engine='flex-run', assertion='serialized == in-code'))
        st = 'violated' if st == 'violation' else 'known-finding'
    ctx.record('rt_%s_%s' % (s.name, oname), st, engine='flex-run', entry=s.name, config=oname,
               detail='%d strings (all up to the bound over %d representative bytes) tokenised identically: %s' % (nstr, len(reps_for(s)), same))
    ctx.extra_cov['strings_compared'] = ctx.extra_cov.get('strings_compared', 0) + nstr
    # layout of the file: magic, header size, total size, alignment of every table
    fp = os.path.join(wd, 't.tables')
    data = open(fp, 'rb').read()
    probs = []
    if len(data) < 16 or struct.unpack('>I', data[:4])[0] != 0xF13C57B1:
        probs.append('bad magic number')
    else:
        hsize, ssize = struct.unpack('>II', data[4:12])
        if ssize != len(data):
            probs.append('th_ssize %d != file size %d' % (ssize, len(data)))
        if hsize % 8 != 0:
            probs.append('header not padded to 8 bytes (%d)' % hsize)
        pos = hsize
        ntab = 0
        while pos + 12 <= len(data):
            tid, flags, hi, lo = struct.unpack('>HHII', data[pos:pos + 12])
            if pos % 8 != 0:
                probs.append('table at offset %d not on a 64-bit boundary' % pos)
                break
            w = 1 if flags & 1 else 2 if flags & 2 else 4 if flags & 4 else 0
            if w == 0:
                probs.append('table %d has no width flag' % tid)
                break
            n = (hi * lo if hi else lo) * (2 if flags & 0x10 else 1)
            end = pos + 12 + n * w
            end = (end + 7) & ~7
            pos = end
            ntab += 1
        if not probs and pos != len(data):
            probs.append('tables do not tile the file exactly (end %d, size %d)' % (pos, len(data)))
    st = 'ok'
    if probs:
        st = ctx.violation('fmt_%s_%s' % (s.name, oname), 'tables file layout: ' + '; '.join(probs), dict(options=opts),
                           key=dict(entry=s.name, config=oname, engine='format', assertion='file layout'))
        st = 'violated' if st == 'violation' else 'known-finding'
    ctx.record('fmt_%s_%s' % (s.name, oname), st, engine='format', entry=s.name, config=oname, detail='; '.join(probs) or 'magic, sizes, network byte order, 64-bit alignment of every table')


def format_checks(ctx, tree):
    """Truncated / corrupted files must make loading fail with an error, not crash (ASan build)."""
    wd = ctx.subdir('rt_lit1_Cem')
    fp = os.path.join(wd, 't.tables')
    if not os.path.exists(fp) or not os.path.exists(os.path.join(wd, 'drv_file')):
        return
    data = open(fp, 'rb').read()
    bad = 0
    tried = 0
    cuts = sorted(set(list(range(0, min(len(data), 80))) + list(range(80, len(data), 7)) + [len(data) - 1]))
    for cut in cuts:
        with open(os.path.join(wd, 'trunc.tables'), 'wb') as fh:
            fh.write(data[:cut])
        q = subprocess.run(['./drv_file', 'trunc.tables'], cwd=wd, stdout=subprocess.PIPE, stderr=subprocess.PIPE, timeout=60)
        tried += 1
        if q.returncode not in (2,) and b'LOADFAIL' not in q.stdout:
            # the generated loader may also stop through the fatal-error hook (exit status 2 of yypanic)
            if q.returncode < 0 or b'AddressSanitizer' in q.stderr or b'runtime error' in q.stderr or q.returncode == 0:
                bad += 1
                first = (cut, q.returncode, q.stderr[-200:].decode('latin-1'))
    st = 'ok'
    if bad:
        st = ctx.violation('trunc_lit1', 'loading a truncated tables file crashes or succeeds (%d of %d truncation points; first: cut at %d rc=%s %s)' % ((bad, tried) + first),
                           {}, key=dict(entry='lit1', engine='flex-run', assertion='truncated file'))
        st = 'violated' if st == 'violation' else 'known-finding'
    ctx.record('trunc_lit1', st, engine='flex-run', detail='%d truncation points, %d bad' % (tried, bad))
    # wrong magic
    with open(os.path.join(wd, 'magic.tables'), 'wb') as fh:
        fh.write(b'\x00' + data[1:])
    q = subprocess.run(['./drv_file', 'magic.tables'], cwd=wd, stdout=subprocess.PIPE, stderr=subprocess.PIPE, timeout=60)
    ok = (q.returncode == 2 or b'LOADFAIL' in q.stdout) and b'AddressSanitizer' not in q.stderr
    st = 'ok'
    if not ok:
        st = ctx.violation('magic_lit1', 'wrong magic number: rc=%s %s' % (q.returncode, q.stderr[-200:].decode('latin-1')), {}, key=dict(entry='lit1', engine='flex-run', assertion='bad magic'))
        st = 'violated' if st == 'violation' else 'known-finding'
    ctx.record('magic_lit1', st, engine='flex-run', detail='rc=%s' % q.returncode)
