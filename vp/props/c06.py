"""C06 line anchors and trailing context."""
from .. import corpus
from . import common
from .c02 import C, compatible


def configs(tier):
    L = [C('Cem'), C('C', ['-C']), C('Cfe', ['-Cfe']), C('CFe', ['-CFe']), C('B', ['-B']), C('array', options=['array', 'yylmax=16']),
         C('r', api='r'), C('c99', api='c99')]
    if tier == 'thorough':
        L += [C('Ce', ['-Ce']), C('Cm', ['-Cm']), C('Cf8', ['-Cf', '-8']), C('CF8', ['-CF', '-8']), C('rCfe', ['-Cfe'], api='r'),
              C('c99Cfe', ['-Cfe'], api='c99'), C('arrayB', ['-B'], options=['array', 'yylmax=16'])]
    return L


def run(ctx):
    quick = ctx.tier == 'quick'
    specs = [s for s in common.select(ctx, corpus.specs()) if s.tags & {'bol', 'trail', 'eol'}]
    pairs = [(s, c) for s in specs for c in configs(ctx.tier) if not compatible(s, c)]
    common.tokenization_pairs(ctx, pairs, e1_tag=None, e1_lengths=range(0, 5) if quick else range(0, 6),
                              e2_cap=10 if quick else 16,
                              full_e1_lengths=range(0, 4) if quick else range(0, 5),
                              skip_dangerous=True)
    common.std_assumptions(ctx)
    ctx.assume("rule sets for which flex prints 'dangerous trailing context' are excluded, as the property states")
