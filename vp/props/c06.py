"""C06 line anchors and trailing context."""
from .. import corpus, engines as E
from . import common
from .c02 import C, compatible


def configs(tier):
    L = [C('Cem'), C('C', ['-C']), C('Cfe', ['-Cfe']), C('CFe', ['-CFe']), C('B', ['-B']), C('array', options=['array', 'yylmax=16']),
         C('r', api='r'), C('c99', api='c99')]
    if tier == 'thorough':
        L += [C('Ce', ['-Ce']), C('Cm', ['-Cm']), C('Cf8', ['-Cf', '-8']), C('CF8', ['-CF', '-8']), C('rCfe', ['-Cfe'], api='r'),
              C('c99Cfe', ['-Cfe'], api='c99'), C('arrayB', ['-B'], options=['array', 'yylmax=16'])]
    return L


def run(ctx):
    quick = ctx.tier == 'quick'
    # trailing context after yymore(): inductive yylex step whose pre-state carries a yymore() prefix
    jobs = []
    for s in common.select(ctx, corpus.specs(names=['tc_min', 'tc_fixed_trail'] if quick else ['tc_min', 'tc_fixed_trail', 'tc_fixed_head', 'tc_both_fixed', 'tc_compete'])):
        for c in [C('Cem'), C('array', options=['array', 'yylmax=16'])] + ([] if quick else [C('Cfe', ['-Cfe']), C('r', api='r')]):
            for (bs, m) in ([(2, 1)] if quick else [(2, 1), (3, 1), (2, 2)]):
                js, g = E.e3w_jobs(ctx, s, c, bs, m, maxnul=0, witness=False, timeout=(280 if quick else 1800), mem_mb=(10000 if quick else 24000), more=True)
                if g.ok:
                    jobs += js
    ctx.run_cbmc(jobs)
    specs = [s for s in common.select(ctx, corpus.specs()) if s.tags & {'bol', 'trail', 'eol'}]
    pairs = [(s, c) for s in specs for c in configs(ctx.tier) if not compatible(s, c)]
    common.tokenization_pairs(ctx, pairs, e1_tag=None, e1_lengths=range(0, 5) if quick else range(0, 6),
                              e2_cap=10 if quick else 16,
                              full_e1_lengths=range(0, 4) if quick else range(0, 5),
                              skip_dangerous=True)
    common.std_assumptions(ctx)
    ctx.assume("rule sets for which flex prints 'dangerous trailing context' are excluded, as the property states")
