"""C07 yyreject() visits every alternative match in the documented order."""
import os
import re
import subprocess

from .. import build, corpus, engines as E, harness as H
from . import common
from .c02 import C


def run(ctx):
    quick = ctx.tier == 'quick'
    jobs = []
    # (a) accepting lists of REJECT scanners: exactly the matching rules, in rule order (E2)
    rej = [s for s in common.select(ctx, corpus.specs()) if 'reject' in s.tags or 'vartrail' in s.tags]
    cfgs = [C('Cem'), C('C', ['-C']), C('r', api='r'), C('c99', api='c99')] if quick else \
           [C('Cem'), C('C', ['-C']), C('Ce', ['-Ce']), C('Cm', ['-Cm']), C('B', ['-B']), C('r', api='r'), C('c99', api='c99')]
    for s in rej:
        for c in cfgs:
            wd, g = E._prep(ctx, s, c, 'tok', extra_options=E.ALLOC_OPTS)
            if not common.gen_ok(ctx, g, s, c, 'E2'):
                continue
            j2, _ = E.e2_jobs(ctx, s, c, common.e2_depth(g, 10 if quick else 16), witness=(c.name == 'Cem'), g=g, wd=wd)
            jobs += j2
    # (b) the REJECT walk itself: one yylex step.  Interior variant first (the match attempt jams inside
    # the buffer; the set of rejecting visits is a solver variable), at one shared action site and at
    # per-rule sites of rules with fixed-length trailing context (the scanner has backed yy_cp over the
    # trail before the action runs and yyreject() must undo that).
    def add(s, c, mode, lens, k, interior, wl=None, maxnul=0):
        js, g = E.e4_jobs(ctx, s, c, mode, lens, maxnul=maxnul, rej_k=k, timeout=(420 if quick else 1800),
                          mem_mb=(10000 if quick else 24000), interior=interior, witness_len=wl)
        if not g.ok:
            common.gen_ok(ctx, g, s, c, 'E4 ' + mode)
            return False
        if not common.compile_check(ctx, g, s, c):
            return False
        jobs.extend(js)
        return True

    hs = [s for s in corpus.specs(tag='hist') if s.name in (('h_words', 'h_sc') if quick else ('h_words', 'h_sc', 'h_nl', 'h_min'))]
    tcs = list(corpus.specs(tag='histtc'))
    cf_i = [C('Cem'), C('r', api='r')] if quick else [C('Cem'), C('C', ['-C']), C('B', ['-B']), C('r', api='r'), C('c99', api='c99')]
    for s in hs + tcs:
        sites = s in tcs
        for c in cf_i:
            for mode in (('reject',) if quick else ('reject', 'yyreject')):
                if c.api == 'c99' and mode == 'reject':
                    mode = 'yyreject'
                m = mode + ('_sites' if sites else '')
                lens = ([2, 3] if quick else [1, 2, 3, 4, 5])
                if not add(s, c, m, lens, None, True, wl=(2 if (c.name == 'Cem' and s.name in ('h_words', 'h_tc_vh')) else None)):
                    break
    # tokens that run into the end of the buffer (end-of-buffer code inside the walk), no NUL in the input
    for s in hs:
        for c in ([C('Cem')] if quick else [C('Cem'), C('B', ['-B']), C('r', api='r')]):
            for mode in (('reject',) if quick else ('reject', 'yyreject')):
                if not add(s, c, mode, [1, 2, 3] if quick else [1, 2, 3, 4], None, False):
                    break
    # per-rule sites: every textual REJECT is a further back edge, so k rejecting visits are fixed per query
    for s in [t for t in tcs if t.name in ('h_tc_vh', 'h_tc_vt')] if quick else tcs:
        for k in ((1,) if quick else (0, 1, 2)):
            add(s, C('Cem'), 'reject_sites', [2] if quick else [1, 2, 3], k, False)
    # the same with a NUL in the input (NUL transition + 'goto yy_match' inside the walk): k rejecting visits per query
    for s in hs[:1]:
        for k in ((1,) if quick else (0, 1, 2, 3)):
            add(s, C('Cem'), 'reject', [2] if quick else [1, 2, 3], k, False, maxnul=1)
    jobs.sort(key=lambda j: (0 if j.meta.get('engine') == 'E2' else (1 if j.name.endswith('_int') else 2), j.name))
    ctx.run_cbmc(jobs)
    spelling_and_refusals(ctx)
    common.std_assumptions(ctx)
    ctx.assume('REJECT walk: the number of rejecting visits k is fixed per query (0..3); inputs and start condition are solver variables')
    ctx.out_of_bound.append('tokens longer than 3 bytes in the REJECT walk; REJECT combined with buffer refills (flex documents the non-growing buffer)')


def spelling_and_refusals(ctx):
    """Both documented spellings are detected (the generated file compiles);
    REJECT with -Cf/-CF is refused."""
    tree = ctx.ensure_tree()
    wd = ctx.subdir('spell')
    cases = [
        ('REJECT_upper', '%option noyywrap\n%%\nab { if (yyleng) REJECT; }\na ;\n.|\\n ;\n%%\n', [], 0),
        ('yyreject_call', '%option noyywrap\n%%\nab { if (yyleng) yyreject(); }\na ;\n.|\\n ;\n%%\n', [], 0),
        ('yyreject_call_r', '%option noyywrap reentrant\n%%\nab { if (yyleng) yyreject(); }\na ;\n.|\\n ;\n%%\n', [], 0),
        ('yyreject_c99', '%option noyywrap\n%%\nab { yyreject(); }\na ;\n.|\\n ;\n%%\n', ['--emit=c99'], 0),
        ('reject_Cf', '%option noyywrap\n%%\nab REJECT;\n.|\\n ;\n%%\n', ['-Cf'], 1),
        ('yyreject_CF', '%option noyywrap\n%%\nab yyreject();\n.|\\n ;\n%%\n', ['-CF'], 1),
    ]
    for name, text, flags, refuse in cases:
        with open(os.path.join(wd, name + '.l'), 'w') as fh:
            fh.write(text)
        out = os.path.join(wd, name + '.c')
        if os.path.exists(out):
            os.unlink(out)
        rc, so, se = build.flex_run(tree, list(flags) + ['-o', name + '.c', name + '.l'], cwd=wd)
        if refuse:
            ok = rc != 0 and 'REJECT cannot be used with -f or -F' in se
            why = 'REJECT with -Cf/-CF must be refused'
        else:
            ok = rc == 0
            why = 'flex accepts the rule set'
            if ok:
                p = subprocess.run(['gcc', '-c', '-w', '-o', '/dev/null', out], stdout=subprocess.PIPE, stderr=subprocess.PIPE)
                ok = p.returncode == 0
                why = 'the generated scanner compiles (REJECT use detected): ' + p.stderr.decode('latin-1')[:200]
        ctx.record('spelling_' + name, 'ok' if ok else 'violated', engine='flex-run', detail='rc=%s %s' % (rc, se.strip()[-100:]))
        if not ok:
            ctx.violation('spelling_' + name, '%s: %s (flags %s, rc=%s, stderr=%r)' % (name, why, flags, rc, se[-200:]),
                          dict(flex_input=text, flags=flags, rc=rc, stderr=se), key=dict(entry=name, engine='flex-run', assertion='spelling/refusal'))
