"""History obligations shared by several properties."""
from .. import corpus, engines as E
from . import common
from .c02 import C


def state_stack_obligations(ctx):
    quick = ctx.tier == 'quick'
    jobs = []
    for s in corpus.specs(names=['sc_many', 'sc1'] if quick else ['sc_many', 'sc1', 'sc_scope']):
        for c in ([C('Cem'), C('r', api='r')] if quick else [C('Cem'), C('r', api='r'), C('Cfe', ['-Cfe']), C('c99', api='c99')]):
            js, g = E.stack_jobs(ctx, s, c, timeout=(240 if quick else 900))
            if common.gen_ok(ctx, g, s, c, 'stack'):
                jobs += js
    ctx.run_cbmc(jobs)
