"""C05 start conditions activate exactly the documented rules; stack is LIFO."""
from .. import corpus
from . import common
from .c02 import C, compatible


def configs(tier):
    L = [C('Cem'), C('Cfe', ['-Cfe']), C('CFe', ['-CFe']), C('B', ['-B']), C('r', api='r'), C('c99', api='c99')]
    if tier == 'thorough':
        L += [C('C', ['-C']), C('Cm', ['-Cm']), C('array', options=['array', 'yylmax=16']), C('Cf8', ['-Cf', '-8']), C('rCfe', ['-Cfe'], api='r')]
    return L


def run(ctx):
    quick = ctx.tier == 'quick'
    specs = [s for s in common.select(ctx, corpus.specs()) if s.tags & {'sc', 'scope', 'eof'}]
    pairs = [(s, c) for s in specs for c in configs(ctx.tier) if not compatible(s, c)]
    # (a) state-stack histories first: they are cheap and must never fall outside the time budget
    from . import histories
    histories.state_stack_obligations(ctx)
    # (b) the start condition and the line-start flag are solver variables in every job
    common.tokenization_pairs(ctx, pairs, e1_tag='e1', e1_lengths=range(0, 4) if quick else range(0, 6),
                              e2_cap=10 if quick else 16,
                              full_e1_lengths=range(0, 3) if quick else range(0, 5))
    ctx.assume('start-condition stack: 27 pushes/pops with a fixed pattern of conditions (past YY_START_STACK_INCR), 3 solver-chosen push/pop/begin operations against an array model, optional yylex_destroy() and reuse (non-reentrant), optional underflow')
    ctx.out_of_bound.append('stack histories longer than 27+3 operations; yyrestart()/buffer switches inside the stack histories (C10/C11 assert the start condition is unchanged by them)')
    common.std_assumptions(ctx)
