"""C10 end of input: pending text tokenised, yywrap consulted, EOF action run."""
from .. import corpus, engines as E
from . import common
from .c02 import C, compatible


def run(ctx):
    quick = ctx.tier == 'quick'
    jobs = []
    # (a) which EOF action runs, per start condition (length-0 first-token jobs; the
    #     condition is a solver variable) -- and tokens right before end of input
    eofs = [s for s in common.select(ctx, corpus.specs()) if 'eof' in s.tags]
    cfgs = [C('Cem'), C('Cfe', ['-Cfe']), C('r', api='r'), C('c99', api='c99')] if quick else \
           [C('Cem'), C('C', ['-C']), C('Cfe', ['-Cfe']), C('CFe', ['-CFe']), C('B', ['-B']), C('r', api='r'), C('c99', api='c99')]
    for s in eofs:
        for c in cfgs:
            if compatible(s, c):
                continue
            wd, g = E._prep(ctx, s, c, 'tok', extra_options=E.ALLOC_OPTS)
            if not common.gen_ok(ctx, g, s, c, 'E1') or not common.compile_check(ctx, g, s, c):
                continue
            lens = [0, 1, 2] if quick else [0, 1, 2, 3]
            if quick and c.api == 'c99':
                lens = [0]
            js, _ = E.e1_jobs(ctx, s, c, lens, g=g, wd=wd, timeout=(200 if quick else 900))
            jobs += js
    # (b) source exhausted inside a token / EOF pending: inductive refill step with status and
    #     remaining source symbolic (includes: no source left, pending text must be tokenised first)
    for name in (['lit1', 'backup'] if quick else ['lit1', 'backup', 'eof1', 'tc_fixed_trail', 'nul1']):
        for s in corpus.specs(names=[name]):
            for (bs, m) in ([(2, 1)] if quick else [(2, 1), (2, 2), (3, 1)]):
                js, g = E.e3w_jobs(ctx, s, C('Cem'), bs, m, witness=False, timeout=(240 if quick else 1500),
                                   mem_mb=(10000 if quick else 24000), tagx='_%d_%d' % (bs, m))
                jobs += js
    # (c) a user yywrap() that stops or supplies another source
    for s in corpus.specs(names=['eof1', 'lit1'] if quick else ['eof1', 'eof2', 'lit1', 'sc1', 'bol1']):
        for c in ([C('Cem')] if quick else [C('Cem'), C('r', api='r'), C('B', ['-B'])]):
            js, g = E.wrap_jobs(ctx, s, c, ([0, 1, 2] if s.name == 'lit1' else [0]) if quick else [0, 1, 2, 3], witness_len=(2 if s.name == 'lit1' else None),
                                timeout=(200 if quick else 1500), mores=((0,) if (quick and s.name != 'lit1') else (0, 1, 2)))
            if common.gen_ok(ctx, g, s, c, 'wrap'):
                jobs += js
    jobs.sort(key=common._cost)
    ctx.run_cbmc(jobs)
    common.std_assumptions(ctx)
    ctx.assume('yywrap() behaviour is fixed per query: reports no further input / supplies a second source / pops back to the buffer pushed before (the include-file idiom)')
    ctx.out_of_bound.append('chains of more than one further source; yyrestart()/new yyin after termination (FILE based; the refill harness covers yyrestart inside yy_get_next_buffer)')
