"""C16 flex is robust on arbitrary input files and honest about its exit status (partial)."""
import os
import re
import subprocess

from .. import build, e5
from . import common


def run(ctx):
    quick = ctx.tier == 'quick'
    jobs = [
        e5.kernel_job(ctx, 'k_tee_header.c', name='tee_header', harness_bound=6, timeout=300),
        e5.kernel_job(ctx, 'k_flexmain_exit.c', name='flexmain_exit_0', defines=['VP_JMP=1'], harness_bound=6, timeout=300),
        e5.kernel_job(ctx, 'k_flexmain_exit.c', name='flexmain_exit_1', defines=['VP_JMP=2'], harness_bound=6, timeout=300),
        e5.kernel_job(ctx, 'k_flexmain_exit.c', name='flexmain_exit_2', defines=['VP_JMP=3'], harness_bound=6, timeout=300),
        e5.kernel_job(ctx, 'k_flexmain_exit.c', name='flexmain_exit_w', defines=['VP_JMP=1', 'VP_WITNESS'], harness_bound=6, timeout=300, expect='witness'),
        e5.kernel_job(ctx, 'k_myesc.c', name='myesc_safe', harness_bound=8, timeout=300, checks='safety'),
        e5.kernel_job(ctx, 'k_myesc.c', name='myesc_w', defines=['VP_WITNESS'], harness_bound=8, timeout=300, expect='witness'),
    ]
    for w, fn in ((0, 'new_rule'), (1, 'mkstate')):
        jobs.append(e5.kernel_job(ctx, 'k_limits.c', name='limits_' + fn, defines=['VP_WHICH=%d' % w], harness_bound=4, timeout=300, checks='safety'))
        jobs.append(e5.kernel_job(ctx, 'k_limits.c', name='limits_%s_w' % fn, defines=['VP_WHICH=%d' % w, 'VP_WITNESS'], harness_bound=4, timeout=300, expect='witness'))
    ctx.run_cbmc(jobs)
    ctx.functions.update(['filter_tee_header', 'flex_main (exit path)', 'myesc', 'new_rule', 'mkstate'])
    output_failures(ctx)
    output_limit_sweep(ctx, quick)
    malformed_inputs(ctx, quick)
    malformed_command_lines(ctx)
    ctx.assume('stdio, wait, dup and freopen are stubs returning arbitrary results within their documented contracts; FLEX_EXIT/longjmp is a stub that records the status and ends the path')
    ctx.assume('cbmc 6.11 + MiniSat sound; --unwinding-assertions on every query')
    ctx.out_of_bound.append('termination and crash-freedom of the whole pipeline (yyparse + 280 scanner actions + NFA/DFA construction + fork/exec of m4) on arbitrary rule files: one token of flex\'s own scanner already exceeds reach (DESIGN section 2); the real-binary observations below sample it')


def _flex(ctx, args, cwd, inp=None, timeout=60):
    tree = ctx.ensure_tree()
    try:
        return build.flex_run(tree, args, cwd=cwd, input=inp, timeout=timeout)
    except subprocess.TimeoutExpired:
        return (-999, '', 'TIMEOUT')


def _dev_full_ok():
    """/dev/full must be the real character device (1,7); as root a broken flex
    can unlink it, after which the path names an ordinary file."""
    import stat
    try:
        st = os.stat('/dev/full')
    except OSError:
        return False
    return stat.S_ISCHR(st.st_mode) and os.major(st.st_rdev) == 1 and os.minor(st.st_rdev) == 7


def _run_limited(cmd, cwd, fds=None, fsize=None, stdout_path=None, timeout=60):
    """Run flex with (a) extra descriptors opened on /dev/full, named on the
    command line as /dev/fd/N (flex cannot unlink those), or (b) RLIMIT_FSIZE
    with SIGXFSZ ignored, so that writes to regular files fail with EFBIG."""
    import resource, signal
    env = dict(os.environ)
    env['LC_ALL'] = 'C'
    env.pop('POSIXLY_CORRECT', None)
    opened = []
    pass_fds = []
    for fd in (fds or []):
        h = os.open('/dev/full', os.O_WRONLY)
        os.dup2(h, fd)
        os.close(h)
        os.set_inheritable(fd, True)
        opened.append(fd)
        pass_fds.append(fd)

    def pre():
        if fsize is not None:
            signal.signal(signal.SIGXFSZ, signal.SIG_IGN)
            resource.setrlimit(resource.RLIMIT_FSIZE, (fsize, fsize))
    so = subprocess.PIPE
    fh = None
    if stdout_path:
        fh = open(stdout_path, 'wb')
        so = fh
    try:
        p = subprocess.run(cmd, cwd=cwd, stdout=so, stderr=subprocess.PIPE, env=env, pass_fds=pass_fds,
                           preexec_fn=pre, timeout=timeout)
        rc, se = p.returncode, p.stderr.decode('latin-1')
    except subprocess.TimeoutExpired:
        rc, se = -999, 'TIMEOUT'
    finally:
        if fh:
            fh.close()
        for fd in opened:
            os.close(fd)
    return rc, se


def output_failures(ctx):
    """Exit status 0 only if every requested output was written (real binary).
    Two independent ways of making one output unwritable: a descriptor on
    /dev/full (ENOSPC) and a file-size limit (EFBIG) that only the named
    output runs into (the others go to a pipe or stay below the limit)."""
    tree = ctx.ensure_tree()
    wd = ctx.subdir('outfail')
    with open(os.path.join(wd, 'in.l'), 'w') as fh:
        fh.write('%option noyywrap\n%%\na+b return 1;\n.|\\n ;\n%%\n')
    F = tree.flex
    cases = []
    if _dev_full_ok():
        cases += [
            ('scanner', [F, '-o', '/dev/fd/9', 'in.l'], dict(fds=[9])),
            ('stdout', [F, '-t', 'in.l'], dict(stdout_path='/dev/full')),
            ('header', [F, '--header-file=/dev/fd/9', '-o', 'ok.c', 'in.l'], dict(fds=[9])),
            ('tables', [F, '--tables-file=/dev/fd/9', '-o', 'ok.c', 'in.l'], dict(fds=[9])),
            ('header_c99', [F, '--emit=c99', '--header-file=/dev/fd/9', '-o', 'ok99.c', 'in.l'], dict(fds=[9])),
        ]
    else:
        ctx.notes.append('/dev/full is not the (1,7) character device in this sandbox: ENOSPC cases skipped, EFBIG cases only')
    # file-size limit 512 bytes: every flex output is larger; outputs not under test go to the stdout pipe
    cases += [
        ('scanner_efbig', [F, '-o', 'lim.c', 'in.l'], dict(fsize=512)),
        ('stdout_efbig', [F, '-t', 'in.l'], dict(fsize=512, stdout_path=os.path.join(wd, 'lim_stdout.c'))),
        ('header_efbig', [F, '-t', '--header-file=lim.h', 'in.l'], dict(fsize=512)),
        ('tables_efbig', [F, '-t', '--tables-file=lim.tables', 'in.l'], dict(fsize=100)),
        ('header_c99_efbig', [F, '--emit=c99', '-t', '--header-file=lim99.h', 'in.l'], dict(fsize=512)),
        ('backup_efbig', [F, '-t', '-b', 'inb.l'], dict(fsize=16)),
    ]
    with open(os.path.join(wd, 'inb.l'), 'w') as fh:
        fh.write('%option noyywrap\n%%\nfoobar return 1;\nfoo return 2;\n' + ''.join('k%dzz return %d;\n' % (i, i + 3) for i in range(40)) + '%%\n')
    for name, cmd, kw in cases:
        rc, se = _run_limited(cmd, wd, **kw)
        ok = rc != 0 and rc != -999 and 0 < rc < 128 and se.strip() != ''
        ctx.record('outfail_' + name, 'ok' if ok else 'violated', engine='flex-run', detail='rc=%s stderr=%s' % (rc, se.strip()[:120]))
        if not ok:
            ctx.violation('outfail_' + name, 'output %s cannot be written but flex exits %s (%r)' % (name, rc, se[:200]),
                          dict(args=cmd[1:], how=str(kw), rc=rc, stderr=se), key=dict(entry=name, engine='flex-run', assertion='exit status honest'))
    # sanity: the same runs with writable outputs succeed (also under the SIGXFSZ/limit machinery with a large limit)
    for name, cmd, kw in [('control', [F, '--header-file=ok.h', '--tables-file=ok.tables', '-o', 'ok.c', 'in.l'], dict(fsize=1 << 30)),
                          ('control_backup', [F, '-t', '-b', 'inb.l'], dict(fsize=1 << 30))]:
        rc, se = _run_limited(cmd, wd, **kw)
        ctx.record('outfail_' + name, 'ok' if rc == 0 else 'violated', engine='flex-run', detail='rc=%s' % rc)
        if rc != 0:
            ctx.violation('outfail_' + name, 'flex fails on writable outputs: %r' % se[:200], dict(rc=rc, stderr=se), key=dict(entry=name, engine='flex-run'))


def output_limit_sweep(ctx, quick):
    """Fault enumeration on the real binary: for each kind of output, the
    write failure (EFBIG) is placed at byte k of that output for k over a set
    of positions incl. the last bytes and the stdio-buffer boundaries; flex
    must exit non-zero with a diagnostic at every k < size."""
    tree = ctx.ensure_tree()
    wd = ctx.subdir('outsweep')
    with open(os.path.join(wd, 'in.l'), 'w') as fh:
        fh.write('%option noyywrap\n%%\na+b return 1;\n.|\\n ;\n%%\n')
    F = tree.flex
    kinds = [('scanner', [F, '-o', 's.c', 'in.l'], 's.c'),
             ('header', [F, '-t', '--header-file=s.h', 'in.l'], 's.h'),
             ('tables', [F, '-t', '--tables-file=s.tables', 'in.l'], 's.tables'),
             ('header_c99', [F, '--emit=c99', '-t', '--header-file=s9.h', 'in.l'], 's9.h')]
    total = bad = 0
    for name, cmd, out in kinds:
        rc, se = _run_limited(cmd, wd, fsize=1 << 30)
        if rc != 0:
            ctx.record('outsweep_' + name, 'error', engine='flex-run', detail='control run failed rc=%s' % rc)
            ctx.broken.append('outsweep control run failed for ' + name)
            continue
        full = os.path.getsize(os.path.join(wd, out))
        step = max(1, full // (12 if quick else 150))
        ks = set(range(0, full, step))
        ks.update(full - d for d in (1, 2, 3, 5, 10, 100, 1000, 4095, 4096, 4097, 8192) if full - d >= 0)
        fails = []
        for k in sorted(ks):
            rc, se = _run_limited(cmd, wd, fsize=k)
            total += 1
            if not (0 < rc < 128 and se.strip()):
                fails.append((k, rc))
        st = 'ok'
        if fails:
            bad += len(fails)
            st = ctx.violation('outsweep_' + name, 'write failure at byte %d of the %s output (size %d): flex exits %s' % (fails[0][0], name, full, fails[0][1]),
                               dict(args=cmd[1:], limits_failing=fails[:20], size=full), key=dict(entry=name, engine='flex-run', assertion='exit status honest at every truncation point'))
            st = 'violated' if st == 'violation' else 'known-finding'
        ctx.record('outsweep_' + name, st, engine='flex-run', detail='%d failure positions in an output of %d bytes' % (len(ks), full))
    ctx.extra_cov['fault_positions_tried'] = total


MALFORMED = [
    ('unterminated_ccl', '%%\n[abc ;\n%%\n'),
    ('unbalanced_paren', '%%\n(ab ;\n%%\n'),
    ('bad_repeat', '%%\na{3,1} ;\n%%\n'),
    ('undef_name', '%%\n{NOPE} ;\n%%\n'),
    ('undef_sc', '%%\n<NOPE>a ;\n%%\n'),
    ('missing_quote', '%%\n"abc ;\n%%\n'),
    ('bad_option', '%option nosuchoption\n%%\na ;\n%%\n'),
    ('bad_escape_class', '%%\n[[:nosuch:]] ;\n%%\n'),
    ('empty', ''),
    ('only_sep', '%%\n'),
    ('nul_bytes', '%%\na\x00b ;\n%%\n'),
    ('high_bytes', '%%\n\xe9\xff+ ;\n%%\n'),
    ('long_name', '%%\n{' + 'N' * 3000 + '} ;\n%%\n'),
    ('long_line', 'D ' + '[0-9]' * 1200 + '\n%%\n{D} ;\n%%\n'),
    ('deep_parens', '%%\n' + '(' * 300 + 'a' + ')' * 300 + ' ;\n%%\n'),
    ('many_rules', '%%\n' + ''.join('r%d ;\n' % i for i in range(1500)) + '%%\n'),
    ('big_repeat', '%%\n[a-z]{1000} ;\n%%\n'),
    ('trailing_twice', '%%\na/b/c ;\n%%\n'),
    ('dup_eof', '%%\n<<EOF>> ;\n<<EOF>> ;\n%%\n'),
    ('unclosed_block', '%{\nint x;\n%%\na ;\n'),
    ('unclosed_action', '%%\na { foo(;\n%%\n'),
    ('binary_junk', ''.join(chr((i * 37 + 11) % 256) for i in range(600))),
]


def malformed_command_lines(ctx):
    """Real binary on malformed command lines (observation): every option of the manual that takes a required
    argument, given as the last word without one, must end in a non-zero status after a diagnostic."""
    wd = ctx.subdir('cmdline')
    spec = b'%%\na ;\n%%\n'
    for opt in ('-o', '-P', '-S', '-D', '--outfile', '--prefix', '--skel', '--yyclass', '--emit', '--backup-file'):
        rc, so, se = _flex(ctx, ['-t', opt], wd, inp=spec, timeout=60)
        problems = []
        if rc == -999:
            problems.append('does not terminate')
        elif rc < 0 or rc >= 128:
            problems.append('killed by signal / abnormal status %s' % rc)
        elif rc == 0:
            problems.append('status 0 although the required argument is missing')
        elif not se.strip():
            problems.append('non-zero status without a diagnostic')
        name = 'cmdline_missing_arg_' + opt.strip('-').replace('-', '_') + ('_long' if opt.startswith('--') else '')
        st = 'ok'
        if problems:
            st = ctx.violation(name, 'flex %s (argument missing): %s' % (opt, '; '.join(problems)), dict(args=['-t', opt], rc=rc, stderr=se[:500]),
                               key=dict(entry=name, engine='flex-run', assertion='robust exit'))
            st = 'violated' if st == 'violation' else 'known-finding'
        ctx.record(name, st, engine='flex-run', detail='rc=%s %s' % (rc, se.strip()[:100]))


def malformed_inputs(ctx, quick):
    """Real binary on malformed / extreme inputs: terminates, no signal, status
    0 only with a complete scanner, non-zero only after a diagnostic."""
    wd = ctx.subdir('malformed')
    for name, text in MALFORMED:
        path = os.path.join(wd, name + '.l')
        with open(path, 'w', encoding='latin-1') as fh:
            fh.write(text)
        out = os.path.join(wd, name + '.c')
        if os.path.exists(out):
            os.unlink(out)
        rc, so, se = _flex(ctx, ['-o', name + '.c', name + '.l'], wd, timeout=120)
        problems = []
        if rc == -999:
            problems.append('does not terminate within 120 s')
        elif rc < 0 or rc >= 128:
            problems.append('killed by signal / abnormal status %s' % rc)
        elif rc == 0:
            if not (os.path.exists(out) and os.path.getsize(out) > 0):
                problems.append('status 0 without an output file')
            else:
                p = subprocess.run(['gcc', '-c', '-w', '-o', '/dev/null', out], stdout=subprocess.PIPE, stderr=subprocess.PIPE)
                if p.returncode != 0 and name not in ('unclosed_action',):
                    problems.append('status 0 but the scanner does not compile: ' + p.stderr.decode('latin-1')[:150])
        else:
            if not se.strip():
                problems.append('non-zero status %s without any diagnostic' % rc)
        st = 'ok'
        if problems:
            st = ctx.violation('malformed_' + name, '; '.join(problems), dict(flex_input=text[:2000], rc=rc, stderr=se[:2000]),
                          key=dict(entry=name, engine='flex-run', assertion='robust exit'))
            st = 'violated' if st == 'violation' else 'known-finding'
        ctx.record('malformed_' + name, st, engine='flex-run', detail='rc=%s %s' % (rc, se.strip()[:100]))
