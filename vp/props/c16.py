"""C16 flex is robust on arbitrary input files and honest about its exit status (partial)."""
import os
import re
import subprocess

from .. import build, e5
from . import common


def run(ctx):
    quick = ctx.tier == 'quick'
    jobs = [
        e5.kernel_job(ctx, 'k_tee_header.c', name='tee_header', harness_bound=6, timeout=300),
        e5.kernel_job(ctx, 'k_flexmain_exit.c', name='flexmain_exit_0', defines=['VP_JMP=1'], harness_bound=6, timeout=300),
        e5.kernel_job(ctx, 'k_flexmain_exit.c', name='flexmain_exit_1', defines=['VP_JMP=2'], harness_bound=6, timeout=300),
        e5.kernel_job(ctx, 'k_flexmain_exit.c', name='flexmain_exit_2', defines=['VP_JMP=3'], harness_bound=6, timeout=300),
        e5.kernel_job(ctx, 'k_flexmain_exit.c', name='flexmain_exit_w', defines=['VP_JMP=1', 'VP_WITNESS'], harness_bound=6, timeout=300, expect='witness'),
        e5.kernel_job(ctx, 'k_myesc.c', name='myesc_safe', harness_bound=8, timeout=300, checks='safety'),
        e5.kernel_job(ctx, 'k_myesc.c', name='myesc_w', defines=['VP_WITNESS'], harness_bound=8, timeout=300, expect='witness'),
    ]
    for k in ('k_linedir.c', 'k_limits.c'):
        if os.path.exists(os.path.join(e5.KDIR, k)):
            jobs.append(e5.kernel_job(ctx, k, harness_bound=220, timeout=600, checks='safety'))
    ctx.run_cbmc(jobs)
    ctx.functions.update(['filter_tee_header', 'flex_main (exit path)', 'myesc'])
    output_failures(ctx)
    malformed_inputs(ctx, quick)
    ctx.assume('stdio, wait, dup and freopen are stubs returning arbitrary results within their documented contracts; FLEX_EXIT/longjmp is a stub that records the status and ends the path')
    ctx.assume('cbmc 6.11 + MiniSat sound; --unwinding-assertions on every query')
    ctx.out_of_bound.append('termination and crash-freedom of the whole pipeline (yyparse + 280 scanner actions + NFA/DFA construction + fork/exec of m4) on arbitrary rule files: one token of flex\'s own scanner already exceeds reach (DESIGN section 2); the real-binary observations below sample it')


def _flex(ctx, args, cwd, inp=None, timeout=60):
    tree = ctx.ensure_tree()
    try:
        return build.flex_run(tree, args, cwd=cwd, input=inp, timeout=timeout)
    except subprocess.TimeoutExpired:
        return (-999, '', 'TIMEOUT')


def output_failures(ctx):
    """Exit status 0 only if every requested output was written (real binary, /dev/full)."""
    wd = ctx.subdir('outfail')
    with open(os.path.join(wd, 'in.l'), 'w') as fh:
        fh.write('%option noyywrap\n%%\na+b return 1;\n.|\\n ;\n%%\n')
    cases = [
        ('scanner', ['-o', '/dev/full', 'in.l']),
        ('stdout', None),
        ('header', ['--header-file=/dev/full', '-o', 'ok.c', 'in.l']),
        ('tables', ['--tables-file=/dev/full', '-o', 'ok.c', 'in.l']),
        ('header_c99', ['--emit=c99', '--header-file=/dev/full', '-o', 'ok99.c', 'in.l']),
    ]
    for name, args in cases:
        if args is None:
            tree = ctx.ensure_tree()
            p = subprocess.run('%s -t in.l > /dev/full' % tree.flex, shell=True, cwd=wd, stdout=subprocess.PIPE, stderr=subprocess.PIPE)
            rc, se = p.returncode, p.stderr.decode('latin-1')
        else:
            rc, so, se = _flex(ctx, args, wd)
        ok = rc != 0 and se.strip() != ''
        ctx.record('outfail_' + name, 'ok' if ok else 'violated', engine='flex-run', detail='rc=%s stderr=%s' % (rc, se.strip()[:120]))
        if not ok:
            ctx.violation('outfail_' + name, 'output %s cannot be written but flex exits %s (%r)' % (name, rc, se[:200]),
                          dict(args=args, rc=rc, stderr=se), key=dict(entry=name, engine='flex-run', assertion='exit status honest'))
    # sanity: the same run with writable outputs succeeds
    rc, so, se = _flex(ctx, ['--header-file=ok.h', '-o', 'ok.c', 'in.l'], wd)
    ctx.record('outfail_control', 'ok' if rc == 0 else 'violated', engine='flex-run', detail='rc=%s' % rc)
    if rc != 0:
        ctx.violation('outfail_control', 'flex fails on writable outputs: %r' % se[:200], dict(rc=rc, stderr=se), key=dict(entry='control', engine='flex-run'))


MALFORMED = [
    ('unterminated_ccl', '%%\n[abc ;\n%%\n'),
    ('unbalanced_paren', '%%\n(ab ;\n%%\n'),
    ('bad_repeat', '%%\na{3,1} ;\n%%\n'),
    ('undef_name', '%%\n{NOPE} ;\n%%\n'),
    ('undef_sc', '%%\n<NOPE>a ;\n%%\n'),
    ('missing_quote', '%%\n"abc ;\n%%\n'),
    ('bad_option', '%option nosuchoption\n%%\na ;\n%%\n'),
    ('bad_escape_class', '%%\n[[:nosuch:]] ;\n%%\n'),
    ('empty', ''),
    ('only_sep', '%%\n'),
    ('nul_bytes', '%%\na\x00b ;\n%%\n'),
    ('high_bytes', '%%\n\xe9\xff+ ;\n%%\n'),
    ('long_name', '%%\n{' + 'N' * 3000 + '} ;\n%%\n'),
    ('long_line', 'D ' + '[0-9]' * 1200 + '\n%%\n{D} ;\n%%\n'),
    ('deep_parens', '%%\n' + '(' * 300 + 'a' + ')' * 300 + ' ;\n%%\n'),
    ('many_rules', '%%\n' + ''.join('r%d ;\n' % i for i in range(1500)) + '%%\n'),
    ('big_repeat', '%%\n[a-z]{1000} ;\n%%\n'),
    ('trailing_twice', '%%\na/b/c ;\n%%\n'),
    ('dup_eof', '%%\n<<EOF>> ;\n<<EOF>> ;\n%%\n'),
    ('unclosed_block', '%{\nint x;\n%%\na ;\n'),
    ('unclosed_action', '%%\na { foo(;\n%%\n'),
    ('binary_junk', ''.join(chr((i * 37 + 11) % 256) for i in range(600))),
]


def malformed_inputs(ctx, quick):
    """Real binary on malformed / extreme inputs: terminates, no signal, status
    0 only with a complete scanner, non-zero only after a diagnostic."""
    wd = ctx.subdir('malformed')
    for name, text in MALFORMED:
        path = os.path.join(wd, name + '.l')
        with open(path, 'w', encoding='latin-1') as fh:
            fh.write(text)
        out = os.path.join(wd, name + '.c')
        if os.path.exists(out):
            os.unlink(out)
        rc, so, se = _flex(ctx, ['-o', name + '.c', name + '.l'], wd, timeout=120)
        problems = []
        if rc == -999:
            problems.append('does not terminate within 120 s')
        elif rc < 0 or rc >= 128:
            problems.append('killed by signal / abnormal status %s' % rc)
        elif rc == 0:
            if not (os.path.exists(out) and os.path.getsize(out) > 0):
                problems.append('status 0 without an output file')
            else:
                p = subprocess.run(['gcc', '-c', '-w', '-o', '/dev/null', out], stdout=subprocess.PIPE, stderr=subprocess.PIPE)
                if p.returncode != 0 and name not in ('unclosed_action',):
                    problems.append('status 0 but the scanner does not compile: ' + p.stderr.decode('latin-1')[:150])
        else:
            if not se.strip():
                problems.append('non-zero status %s without any diagnostic' % rc)
        st = 'ok'
        if problems:
            st = ctx.violation('malformed_' + name, '; '.join(problems), dict(flex_input=text[:2000], rc=rc, stderr=se[:2000]),
                          key=dict(entry=name, engine='flex-run', assertion='robust exit'))
            st = 'violated' if st == 'violation' else 'known-finding'
        ctx.record('malformed_' + name, st, engine='flex-run', detail='rc=%s %s' % (rc, se.strip()[:100]))
