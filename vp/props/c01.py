"""C01 longest match / first rule / pattern language."""
import re

from .. import corpus, engines as E, harness as H
from . import common


def run(ctx):
    cfg = H.Config('default')
    specs = common.select(ctx, corpus.specs())
    common.tokenization_obligations(ctx, specs, [cfg],
                                    e1_tag='e1',
                                    e1_lengths=range(0, 5) if ctx.tier == 'quick' else range(0, 7),
                                    e2_cap=12 if ctx.tier == 'quick' else 20)
    common.std_assumptions(ctx)
