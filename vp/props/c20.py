"""C20 user code is copied verbatim and located by accurate #line directives (partial)."""
import os
import re
import subprocess

from .. import build
from . import common

TRICKY = [
    'plain text',
    'm4 quotes [[ and ]] inside',
    ']] closing first [[',
    '[[[[nested]]]]',
    'm4_define([[X]],[[Y]]) m4_dnl m4_ifdef',
    'M4_YY_OUTFILE_NAME M4_MODE_PREFIX YY_G(x) M4_HOOK_ECHO',
    '$1 $2 $* $@ $#',
    'back`quote\' and `more',
    '/* comment start inside string',
    'end */ of comment',
    '// line comment',
    '%} percent brace %{ and %% and %top{',
    'yymore() REJECT yyless(1) yyterminate() BEGIN INITIAL',
    'brackets [ ] single and ][ mixed',
    'trailing backslash \\\\',
    'tab\\there and quote \\" inside',
]


def spec_text():
    def lit(i):
        return '"%s"' % TRICKY[i]
    L = []
    L.append('%top{')
    L.append('/* top block */ static const char *u_top = %s; /*@M1*/' % lit(1))
    L.append('}')
    L.append('%{')
    L.append('static const char *u_defs = %s; /*@M2*/' % lit(4))
    L.append('static const char *u_defs2 = %s;' % lit(6))
    L.append('%}')
    L.append('%option noyywrap')
    L.append('    static const char *u_indented = %s; /*@M3*/' % lit(2))
    L.append('D [0-9]')
    L.append('%x COND')
    L.append('%%')
    L.append('%{')
    L.append('    const char *u_prolog = %s; /*@M4*/' % lit(3))
    L.append('%}')
    L.append('')
    L.append('a       { u_out[0] = %s; /*@M5*/ return 1; }' % lit(5))
    L.append('b       u_out[1] = %s; return 2; /*@M6*/' % lit(7))
    L.append('c       {')
    L.append('          /* multi-line action [[ ]] */')
    L.append('          u_out[2] = %s; /*@M7*/' % lit(12))
    L.append('          return 3;')
    L.append('        }')
    L.append('d       |')
    L.append('e       { u_out[3] = %s; /*@M8*/ return 4; }' % lit(9))
    L.append('')
    L.append('<COND>f { u_out[4] = %s; return 5; }' % lit(13))
    L.append('{D}+    { u_out[5] = u_prolog; /*@M9*/ return 6; }')
    L.append('g       { u_out[6] = %s; return 7; }' % lit(15))
    L.append('<<EOF>> { u_out[7] = %s; /*@M10*/ return 0; }' % lit(11))
    L.append('.|\\n    ;')
    L.append('%%')
    L.append('/* user code section [[ ]] m4_define */')
    L.append('const char *u_sect3 = %s; /*@M11*/' % lit(10))
    L.append('const char *u_sect3b = %s;' % lit(8))
    L.append('const char *u_sect3c = %s;' % lit(14))
    return '\n'.join(L) + '\n'


MAIN = r'''
#include <stdio.h>
#include <string.h>
static const char *u_out[8];
#include "%(scanner)s"
int main(void) {
  yy_scan_string("abcdeg12");
  while (yylex()) ;
  const char *all[] = { u_top, u_defs, u_defs2, u_indented, u_out[0], u_out[1], u_out[2], u_out[3], u_out[5], u_out[6], u_out[7], u_sect3, u_sect3b, u_sect3c };
  for (unsigned i = 0; i < sizeof all / sizeof all[0]; i++) printf("%%s\n", all[i] ? all[i] : "(null)");
  return 0;
}
'''


def c_unescape(s):
    return s.replace('\\\\', '\x00').replace('\\t', '\t').replace('\\"', '"').replace('\x00', '\\')


def run(ctx):
    ctx.level = 'other'
    tree = ctx.ensure_tree()
    wd = ctx.subdir('verbatim')
    text = spec_text()
    inlines = text.split('\n')
    with open(os.path.join(wd, 'user.l'), 'w') as fh:
        fh.write(text)
    expected = [TRICKY[i] for i in (1, 4, 6, 2, 5, 7, 12, 9, 3, 15, 11, 10, 8, 14)]
    expected = [c_unescape(e) for e in expected]
    configs = [('c', []), ('c_L', ['-L']), ('c_r', ['--reentrant']), ('c99', ['--emit=c99']), ('c_Cf', ['-Cf', '-8']), ('c_stdout', ['-t'])]
    for tag, flags in configs:
        out = 'u_%s.c' % tag
        if '-t' in flags:
            p = subprocess.run('%s %s user.l > %s' % (tree.flex, ' '.join(flags), out), shell=True, cwd=wd, stdout=subprocess.PIPE, stderr=subprocess.PIPE)
            rc, se = p.returncode, p.stderr.decode('latin-1')
        else:
            rc, so, se = build.flex_run(tree, flags + ['-o', out, 'user.l'], cwd=wd)
        name = 'verbatim_' + tag
        problems = []
        if rc != 0:
            problems.append('flex rc=%s: %s' % (rc, se.strip()[:200]))
        else:
            gen = open(os.path.join(wd, out), errors='replace').read()
            # (a) every literal of the user code is present byte for byte
            for i, t in enumerate(TRICKY):
                if i == 0:
                    continue
                if ('"%s"' % t) not in gen and tag not in ('c99',):
                    problems.append('user text %d not copied verbatim: %r' % (i, t))
            # (b) the compiler sees the same strings (non-reentrant C only: the driver uses the classic API)
            if tag in ('c', 'c_L', 'c_Cf', 'c_stdout'):
                with open(os.path.join(wd, 'main_%s.c' % tag), 'w') as fh:
                    fh.write(MAIN % dict(scanner=out))
                p = subprocess.run(['gcc', '-w', '-o', 'prog_' + tag, 'main_%s.c' % tag], cwd=wd, stdout=subprocess.PIPE, stderr=subprocess.PIPE)
                if p.returncode != 0:
                    problems.append('scanner with user code does not compile: ' + p.stderr.decode('latin-1')[:300])
                else:
                    q = subprocess.run(['./prog_' + tag], cwd=wd, stdout=subprocess.PIPE, stderr=subprocess.PIPE, timeout=20)
                    got = q.stdout.decode('latin-1').split('\n')[:-1]
                    if got != expected:
                        for k, (g_, e_) in enumerate(zip(got + [''] * 20, expected)):
                            if g_ != e_:
                                problems.append('string %d reaches the compiler as %r, written %r' % (k, g_, e_))
                                break
            # (c) #line directives
            glines = gen.split('\n')
            dirs = [(i + 1, int(m.group(1)), m.group(2)) for i, l in enumerate(glines) for m in [re.match(r'#line (\d+) "(.*)"', l)] if m]
            if '-L' in flags:
                if dirs:
                    problems.append('-L given but %d #line directives remain (first at line %d)' % (len(dirs), dirs[0][0]))
            else:
                outname = '<stdout>' if '-t' in flags else out
                for (at, n, f) in dirs:
                    if f == outname:
                        if n != at + 1:
                            problems.append('#line %d "%s" at output line %d: should be %d' % (n, f, at, at + 1))
                            break
                    elif f == 'user.l':
                        # the next line carrying a marker must sit on input line n (+offset within the block)
                        k = at
                        while k < len(glines) and k < at + 6 and '/*@M' not in glines[k] and not glines[k].startswith('#line'):
                            k += 1
                        if k < len(glines) and '/*@M' in glines[k] and k < at + 6:
                            mk = re.search(r'/\*@M\d+\*/', glines[k]).group(0)
                            want = [i + 1 for i, l in enumerate(inlines) if mk in l]
                            if want and want[0] != n + (k - at):
                                problems.append('#line %d "user.l" precedes %s which is on input line %d (offset %d)' % (n, mk, want[0], k - at))
                                break
                    else:
                        problems.append('#line names unknown file %r' % f)
                        break
                if not dirs:
                    problems.append('no #line directives although -L was not given')
        st = 'ok'
        if problems:
            st = ctx.violation(name, '; '.join(problems[:3]), dict(flex_input=text, flags=flags, problems=problems[:10]),
                               key=dict(entry=tag, engine='flex-run', assertion='verbatim/#line', native=problems[0][:80]))
            st = 'violated' if st == 'violation' else 'known-finding'
        ctx.record(name, st, engine='flex-run', config=' '.join(flags), detail='; '.join(problems[:2]) or 'user code verbatim in every region; every #line directive consistent')
    ctx.extra_cov['explanation'] = 'real-binary observations: flex-run obligations compile and run the generated scanner; no solver obligation could be built for this property within reach (see DESIGN section 4/C20)'
    ctx.assume('GNU m4 and gcc behave as documented')
    ctx.out_of_bound.append('all byte sequences in user code (the check uses 16 adversarial strings in 11 code regions); E6 walk of flex\'s own scanner tables not built')
