"""Turn a cbmc counterexample into a native run of the same harness."""
import json
import os
import re
import subprocess

from . import harness as H


def inputs_from_trace(trace):
    """Last value assigned to every harness input (globals named vpi_*)."""
    vals = {}
    for step in trace:
        if step.get('stepType') != 'assignment':
            continue
        lhs = step.get('lhs', '')
        m = re.match(r'^(vpi_\w+)((?:\[\d+l?\])*)((?:\.\w+)*)$', lhs)
        if not m:
            continue
        v = step.get('value', {})
        _store(vals, m.group(1), m.group(2), m.group(3), v)
    return vals


def _leaf(v):
    if 'data' in v:
        d = v['data']
        if isinstance(d, str):
            d = d.strip()
            if re.match(r'^-?\d+[uUlL]*$', d):
                return int(re.sub(r'[uUlL]+$', '', d))
            if d in ('TRUE', 'true'):
                return 1
            if d in ('FALSE', 'false'):
                return 0
            if d.startswith("'") or d.startswith('"'):
                b = v.get('binary')
                if b:
                    return int(b, 2)
        b = v.get('binary')
        if b:
            x = int(b, 2)
            w = v.get('width', len(b))
            if v.get('type', '').startswith('signed') or v.get('name') == 'integer' and 'unsigned' not in v.get('type', ''):
                if x >= 1 << (w - 1):
                    x -= 1 << w
            return x
    if 'binary' in v:
        return int(v['binary'], 2)
    return None


def _store(vals, name, idx, fld, v):
    idxs = [int(x) for x in re.findall(r'\[(\d+)l?\]', idx)]
    if v.get('name') == 'array' or 'elements' in v:
        for e in v.get('elements', []):
            _store(vals, name, idx + '[%d]' % e.get('index', 0), fld, e.get('value', {}))
        return
    if v.get('name') == 'struct' or 'members' in v:
        for mbr in v.get('members', []):
            _store(vals, name, idx, fld + '.' + mbr.get('name', ''), mbr.get('value', {}))
        return
    x = _leaf(v)
    if x is None:
        return
    key = name + ''.join('[%d]' % i for i in idxs) + fld
    vals[key] = x


def write_replay_inc(path, vals):
    with open(path, 'w') as fh:
        for k in sorted(vals):
            fh.write('%s = %d;\n' % (k, vals[k]))


def native_replay(workdir, harness_c, vals, tag, sanitize=True, timeout=60, extra_cflags=()):
    """Compile harness natively with -DREPLAY, run it.  Returns dict with
    outcome in {'assert', 'sanitizer', 'assume', 'pass', 'timeout', 'build-error'}"""
    rdir = os.path.join(workdir, 'replay_' + tag)
    os.makedirs(rdir, exist_ok=True)
    write_replay_inc(os.path.join(rdir, 'vp_replay_set.inc'), vals)
    exe = os.path.join(rdir, 'replay.exe')
    cmd = ['gcc', '-g', '-O0', '-w', '-DREPLAY', '-I', rdir, '-I', workdir, '-I', H.HDIR,
           '-o', exe, harness_c] + list(extra_cflags)
    if sanitize:
        cmd[1:1] = ['-fsanitize=address,undefined', '-fno-sanitize-recover=undefined']
    p = subprocess.run(cmd, stdout=subprocess.PIPE, stderr=subprocess.PIPE, cwd=workdir)
    if p.returncode != 0:
        return dict(outcome='build-error', detail=(p.stdout + p.stderr).decode('latin-1')[-2000:])
    env = dict(os.environ)
    env['ASAN_OPTIONS'] = 'exitcode=99:detect_leaks=0:abort_on_error=0'
    env['UBSAN_OPTIONS'] = 'halt_on_error=1:exitcode=98:print_stacktrace=0'
    try:
        p = subprocess.run([exe], stdout=subprocess.PIPE, stderr=subprocess.PIPE, cwd=rdir,
                           env=env, timeout=timeout)
    except subprocess.TimeoutExpired:
        return dict(outcome='timeout', detail='native run exceeded %ds' % timeout)
    err = p.stderr.decode('latin-1')
    out = dict(rc=p.returncode, detail=err[-1500:])
    if 'VP_ASSERT_FAILED' in err:
        out['outcome'] = 'assert'
        m = re.search(r'VP_ASSERT_FAILED (.*)', err)
        out['assertion'] = m.group(1).strip() if m else ''
    elif 'VP_ASSUME_VIOLATED' in err:
        out['outcome'] = 'assume'
    elif p.returncode in (98, 99) or 'AddressSanitizer' in err or 'runtime error' in err:
        out['outcome'] = 'sanitizer'
    elif p.returncode < 0:
        out['outcome'] = 'sanitizer'
        out['detail'] = 'signal %d\n' % (-p.returncode) + out['detail']
    else:
        out['outcome'] = 'pass'
    return out


def save_replay(verif_dir, prop, case, payload):
    d = os.path.join(os.environ.get('VP_REPLAY_DIR') or os.path.join(verif_dir, 'replays'), prop)
    os.makedirs(d, exist_ok=True)
    path = os.path.join(d, re.sub(r'[^A-Za-z0-9_.-]+', '_', case)[:120] + '.json')
    with open(path, 'w') as fh:
        json.dump(payload, fh, indent=1, sort_keys=True, default=str)
    return path
