"""E5: generator kernels -- real flex translation units compiled by goto-cc
with the build's own config.h, driven as units with stated stubs."""
import os
import shutil

from . import cbmc, harness as H

KDIR = os.path.join(os.path.dirname(os.path.abspath(__file__)), 'kernels')


def kernel_job(ctx, kernel, name=None, defines=(), bounds=None, timeout=600, mem_mb=8000,
               checks='functional', expect='proved', object_bits=None, extra=(), default_bound=None, harness_bound=None,
               meta=None, extra_sources=()):
    """kernel: file name under vp/kernels.  The harness #includes the real .c"""
    tree = ctx.ensure_tree()
    name = name or os.path.splitext(kernel)[0]
    wd = ctx.subdir('e5_' + name)
    src = os.path.join(wd, kernel)
    shutil.copy(os.path.join(KDIR, kernel), src)
    shutil.copy(os.path.join(H.HDIR, 'vp_harness.h'), wd)
    shutil.copy(os.path.join(H.HDIR, 'vp_libc_models.h'), wd)
    m = dict(engine='E5', entry=kernel, config=' '.join(defines), bound=str(dict(bounds or {})))
    m.update(meta or {})
    j = cbmc.Job('e5_' + name, wd, [src] + list(extra_sources), bounds or {},
                 defines=['HAVE_CONFIG_H', 'LOCALEDIR="/usr/local/share/locale"'] + list(defines), includes=[wd, tree.src, H.HDIR],
                 checks=checks, default_bound=default_bound, harness_bound=harness_bound, timeout=timeout, mem_mb=mem_mb,
                 gen_file=None, expect=expect, object_bits=object_bits, extra=extra, meta=m)
    j.replay_cflags = ['-lm', '-no-pie', '-Wl,--unresolved-symbols=ignore-all', '-DHAVE_CONFIG_H', '-DLOCALEDIR="/usr/local/share/locale"', '-I', tree.src] + ['-D' + d for d in defines]
    return j
