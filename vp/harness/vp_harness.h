/* Common prelude of all harnesses.  Two build modes:
 *   cbmc   : VP_ASSERT/VP_ASSUME are solver obligations, inputs are nondet
 *   REPLAY : native build; inputs come from vp_replay_set.inc; assertion
 *            failure -> exit 1, assumption violated -> exit 77
 */
#ifndef VP_HARNESS_H
#define VP_HARNESS_H
#include <stddef.h>
#include <stdint.h>
#include <stdlib.h>
#include <string.h>
#include <stdio.h>

#ifdef REPLAY
#define VP_ASSERT(c, tag) do { if (!(c)) { fprintf(stderr, "VP_ASSERT_FAILED %s\n", tag); fflush(stderr); _Exit(1); } } while (0)
#define VP_ASSUME(c) do { if (!(c)) { fprintf(stderr, "VP_ASSUME_VIOLATED %s\n", #c); fflush(stderr); _Exit(77); } } while (0)
#define VP_END_PATH() do { fprintf(stderr, "VP_PATH_END\n"); fflush(stderr); _Exit(0); } while (0)
#else
#define VP_ASSERT(c, tag) __CPROVER_assert((c), tag)
#define VP_ASSUME(c) __CPROVER_assume(c)
#define VP_END_PATH() __CPROVER_assume(0)
unsigned char nondet_uchar(void);
int nondet_int(void);
unsigned nondet_uint(void);
#endif

#endif
