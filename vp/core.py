"""Check context: obligations, replay of counterexamples, findings, evidence."""
import json
import os
import re
import sys
import time

from . import build, cbmc, replay, harness as H

VERIF = build.VERIF


def load_findings():
    p = os.path.join(VERIF, 'known_findings.json')
    if not os.path.exists(p):
        return []
    with open(p) as fh:
        return json.load(fh).get('findings', [])


class Ctx:
    def __init__(self, prop, tier, seed):
        self.prop = prop
        self.tier = tier
        self.seed = seed
        self.t0 = time.time()
        self.tree = None
        self.work = os.path.join(build.scratch_root(), 'work_' + prop)
        os.makedirs(self.work, exist_ok=True)
        self.obligations = []        # dicts
        self.violations = []         # dicts(case, text, replay)
        self.known_hits = []
        self.broken = []             # machinery problems (exit 2)
        self.assumptions = []
        self.functions = set()
        self.out_of_bound = []
        self.notes = []
        self.findings = [f for f in load_findings() if f.get('property') == prop]
        self.replayed = 0
        self.budget_s = float(os.environ.get('VP_BUDGET', '300' if tier == 'quick' else '2700'))
        self.extra_cov = {}
        self.level = 'model_checking'
        import threading
        self.lock = threading.RLock()

    # ------------------------------------------------------------------
    def log(self, msg):
        sys.stderr.write('[%s %6.1fs] %s\n' % (self.prop, time.time() - self.t0, msg))
        sys.stderr.flush()

    def elapsed(self):
        return time.time() - self.t0

    def ensure_tree(self):
        if self.tree is None:
            try:
                self.tree = build.build_flex()
            except build.BuildError as e:
                self.broken.append('build: ' + str(e)[-800:])
                raise
            self.log('flex rebuilt from %s' % build.REPO)
        return self.tree

    def assume(self, text):
        if text not in self.assumptions:
            self.assumptions.append(text)

    def subdir(self, name):
        d = os.path.join(self.work, re.sub(r'[^A-Za-z0-9_.-]+', '_', name))
        os.makedirs(d, exist_ok=True)
        return d

    # ------------------------------------------------------------------
    def record(self, name, status, **kw):
        ob = dict(name=name, status=status)
        ob.update(kw)
        with self.lock:
            self.obligations.append(ob)
        return ob

    def violation(self, case, text, payload, key=None):
        """Register a reproduced violation unless listed as known finding."""
        key = key or {}
        for f in self.findings:
            if f.get('status') != 'known':
                continue
            m = f.get('match', {})
            ok = True
            for k, rx in m.items():
                if not re.search(rx, str(key.get(k, ''))):
                    ok = False
                    break
            if ok:
                hit = (f.get('id') or f.get('text'), f.get('text'))
                if hit not in self.known_hits:
                    self.known_hits.append(hit)
                return 'known'
        path = replay.save_replay(VERIF, self.prop, case, payload)
        self.violations.append(dict(case=case, text=text, replay=path, key=key))
        self.log('VIOLATION %s: %s' % (case, text))
        return 'violation'

    # ------------------------------------------------------------------
    def run_cbmc(self, jobs):
        """Run jobs; replay counterexamples; fill obligations."""
        eng = os.environ.get('VP_ENGINE')
        if eng:
            jobs = [j for j in jobs if re.search(eng, str(j.meta.get('engine')))]
        cf = os.environ.get('VP_CONFIG')
        if cf:
            jobs = [j for j in jobs if re.search(cf, str(j.meta.get('config')))]
        jn = os.environ.get('VP_JOB')
        if jn:
            jobs = [j for j in jobs if re.search(jn, j.name)]
        if not jobs:
            return
        t = time.time()
        deadline = None
        if self.budget_s is not None:
            deadline = self.t0 + self.budget_s
        cbmc.run_jobs(jobs, deadline=deadline)
        for j in jobs:
            self._digest(j)
        self.log('%d cbmc jobs in %.1fs' % (len(jobs), time.time() - t))

    def _digest(self, j):
        meta = dict(j.meta)
        st = j.stats
        rec = dict(engine=meta.get('engine'), entry=meta.get('entry'), config=meta.get('config'),
                   bound=meta.get('bound'), steps=st.get('steps', 0), clauses=st.get('clauses', 0),
                   variables=st.get('variables', 0), solver_s=round(st.get('solver_s', 0.0), 2),
                   wall_s=round(st.get('wall_s', 0.0), 2), properties=st.get('properties', 0))
        harness_c = j.sources[0]
        if j.status == 'skipped':
            self.record(j.name, 'not-run', reason=j.reason, **rec)
            return
        if j.expect == 'witness':
            # the WITNESS assertion must be violated (reachability)
            wit = [f for f in j.failed if 'WITNESS' in (f[1] or '')]
            if j.status == 'failed' and wit:
                vals = replay.inputs_from_trace(wit[0][2])
                r = replay.native_replay(j.workdir, harness_c, vals, j.name, extra_cflags=getattr(j, 'replay_cflags', ()))
                self.replayed += 1
                if r['outcome'] == 'assert' and 'WITNESS' in r.get('assertion', ''):
                    self.record(j.name, 'witness-reached', inputs=_short(vals), **rec)
                elif r['outcome'] == 'build-error':
                    self.broken.append('%s: native build of witness harness failed: %s' % (j.name, r['detail'][-300:]))
                    self.record(j.name, 'error', reason='native build failed', **rec)
                else:
                    # the solver's witness does not reproduce natively
                    self.record(j.name, 'witness-not-reproduced', native=r['outcome'], inputs=_short(vals), **rec)
                    self.broken.append('%s: witness does not replay natively (%s)' % (j.name, r['outcome']))
            elif j.status == 'proved':
                self.record(j.name, 'vacuous', **rec)
                meta.get('on_vacuous', self.broken.append)('%s: witness twin passes: harness is vacuous' % j.name)
            else:
                self.record(j.name, 'inconclusive', reason=j.reason, **rec)
            return
        if j.status == 'proved':
            self.record(j.name, 'proved', **rec)
            return
        if j.status == 'skipped':
            self.record(j.name, 'not-run', reason=j.reason, **rec)
            return
        if j.status == 'inconclusive':
            self.record(j.name, 'inconclusive', reason=j.reason, **rec)
            if getattr(j, 'unwind_failed', None):
                self._unwind_replay(j, rec)
            return
        if j.status == 'error':
            self.record(j.name, 'error', reason=j.reason[-600:], **rec)
            if meta.get('error_is_violation'):
                meta['error_is_violation'](j)
            else:
                self.broken.append('%s: %s' % (j.name, j.reason[-400:]))
            return
        # failed: replay each distinct failed assertion (up to 3)
        seen = 0
        reproduced = False
        for prop, desc, trace, loc in j.failed[:3]:
            vals = replay.inputs_from_trace(trace)
            r = replay.native_replay(j.workdir, harness_c, vals, j.name + '_%d' % seen, extra_cflags=getattr(j, 'replay_cflags', ()))
            seen += 1
            self.replayed += 1
            payload = dict(property=self.prop, job=j.name, meta={k: v for k, v in meta.items() if isinstance(v, (str, int, float, list, dict))},
                           cbmc_property=prop, assertion=desc, inputs=vals, native=r, cmd=j.cmd,
                           harness=os.path.basename(harness_c), flex_input=meta.get('flex_input', ''),
                           harness_text=_read(harness_c), location=loc)
            if r['outcome'] in ('assert', 'sanitizer', 'timeout'):
                reproduced = True
                key = dict(entry=meta.get('entry'), config=meta.get('config'), engine=meta.get('engine'),
                           assertion=desc, native=r.get('assertion', r['outcome']))
                res = self.violation('%s' % j.name, '%s [%s] inputs=%s native=%s' % (desc, j.name, _short(vals), r['outcome']), payload, key)
                self.record(j.name, 'violated' if res == 'violation' else 'known-finding', assertion=desc,
                            inputs=_short(vals), native=r['outcome'], **rec)
                break
        if not reproduced:
            self.record(j.name, 'cex-not-reproduced', assertion=j.failed[0][1], **rec)
            self.broken.append('%s: counterexample for "%s" does not replay natively' % (j.name, j.failed[0][1]))

    def _unwind_replay(self, j, rec):
        """A failed unwinding assertion: replay natively; only a divergence of
        the real scanner is a violation (DESIGN 3.3)."""
        prop, desc, trace = j.unwind_failed[0]
        vals = replay.inputs_from_trace(trace)
        r = replay.native_replay(j.workdir, j.sources[0], vals, j.name + '_uw', timeout=20)
        self.replayed += 1
        if r['outcome'] in ('assert', 'sanitizer', 'timeout'):
            meta = j.meta
            key = dict(entry=meta.get('entry'), config=meta.get('config'), engine=meta.get('engine'),
                       assertion='unwinding:' + str(desc), native=r.get('assertion', r['outcome']))
            payload = dict(property=self.prop, job=j.name, assertion=desc, inputs=vals, native=r, cmd=j.cmd,
                           flex_input=meta.get('flex_input', ''))
            res = self.violation(j.name, 'loop bound exceeded and native run fails: %s inputs=%s native=%s'
                                 % (desc, _short(vals), r['outcome']), payload, key)
            self.obligations[-1]['status'] = 'violated' if res == 'violation' else 'known-finding'

    # ------------------------------------------------------------------
    def finish(self):
        wall = time.time() - self.t0
        obs = self.obligations
        n_proved = sum(1 for o in obs if o['status'] in ('proved', 'witness-reached', 'ok'))
        steps = sum(o.get('steps', 0) for o in obs)
        clauses = sum(o.get('clauses', 0) for o in obs)
        samples = []
        for o in obs:
            if len(samples) < 12 or o['status'] not in ('proved', 'ok'):
                samples.append({k: v for k, v in o.items() if k in (
                    'name', 'status', 'engine', 'entry', 'config', 'bound', 'steps', 'clauses', 'solver_s',
                    'wall_s', 'inputs', 'assertion', 'reason', 'native', 'detail')})
        samples = samples[:60]
        by_status = {}
        for o in obs:
            by_status[o['status']] = by_status.get(o['status'], 0) + 1
        cov = dict(
            states=max(steps, 1), transitions=max(clauses, 1),
            traces_validated_against_impl=self.replayed,
            samples=samples or [dict(note='no obligations ran')],
            obligations=len(obs), discharged=n_proved,
            queries=len([o for o in obs if o.get('engine')]),
            solver_seconds=round(sum(o.get('solver_s', 0) for o in obs), 1),
            status_counts=by_status,
            functions_encoded=sorted(self.functions),
            out_of_bound=self.out_of_bound,
            notes=self.notes,
            known_findings_hit=[k[1] for k in self.known_hits],
            exhaustive=False,
            explanation='states = SSA steps summed over cbmc queries; transitions = SAT clauses summed; '
                        'traces_validated_against_impl = solver traces (witnesses, counterexamples) replayed on a native build',
        )
        by_engine = {}
        for o in obs:
            e = by_engine.setdefault(str(o.get('engine')), dict(count=0, wall_s=0.0, max_wall_s=0.0, solver_s=0.0))
            e['count'] += 1
            e['wall_s'] = round(e['wall_s'] + o.get('wall_s', 0), 1)
            e['solver_s'] = round(e['solver_s'] + o.get('solver_s', 0), 1)
            e['max_wall_s'] = max(e['max_wall_s'], o.get('wall_s', 0))
        cov['by_engine'] = by_engine
        cov.update(self.extra_cov)
        try:
            os.makedirs(os.path.join(VERIF, 'logs'), exist_ok=True)
            with open(os.path.join(VERIF, 'logs', '%s.%s.obligations.jsonl' % (self.prop, self.tier)), 'w') as fh:
                for o in obs:
                    fh.write(json.dumps(o, sort_keys=True, default=str) + '\n')
        except OSError:
            pass
        ev = dict(property_id=self.prop, tier=self.tier, seed=self.seed, level=self.level,
                  coverage=cov, assumptions=self.assumptions, wall_s=round(wall, 1),
                  violations=len(self.violations))
        evdir = os.environ.get('VP_EVIDENCE_DIR') or os.path.join(VERIF, 'evidence')
        os.makedirs(evdir, exist_ok=True)
        with open(os.path.join(evdir, self.prop + '.json'), 'w') as fh:
            json.dump(ev, fh, indent=1, sort_keys=True, default=str)
        for _, text in self.known_hits:
            print('KNOWN-FINDING: property=%s %s' % (self.prop, text))
        for v in self.violations:
            print('VIOLATION property=%s replay=%s' % (self.prop, v['replay']))
            print('  ' + v['text'])
        print('%s %s: %d obligations, %s, wall %.0fs' % (self.prop, self.tier, len(obs),
              ', '.join('%s=%d' % kv for kv in sorted(by_status.items())), wall))
        sys.stdout.flush()
        if self.violations:
            return 1
        if self.broken:
            for b in self.broken[:20]:
                print('BROKEN: ' + b)
            return 2
        return 0


def _read(path):
    try:
        with open(path, errors='replace') as fh:
            return fh.read()
    except OSError:
        return ''


def _short(vals):
    """Compact rendering of harness inputs."""
    arr = {}
    out = {}
    for k, v in vals.items():
        m = re.match(r'^(vpi_\w+)\[(\d+)\]$', k)
        if m:
            arr.setdefault(m.group(1), {})[int(m.group(2))] = v
        else:
            out[k] = v
    for k, d in arr.items():
        out[k] = ' '.join('%02x' % (d.get(i, 0) & 0xff) for i in range(max(d) + 1))
    return out
