"""Harness generation: flex input rendering, scanner generation with the
freshly built flex, C harness text for the engines."""
import os
import re
from . import build, spec as S

HDIR = os.path.join(os.path.dirname(os.path.abspath(__file__)), 'harness')


class Config:
    """One way of building a scanner from a rule set."""

    def __init__(self, name='default', flags=(), options=(), api='nr'):
        self.name = name
        self.flags = list(flags)
        self.options = list(options)
        self.api = api                       # nr | r | c99

    @property
    def seven_bit(self):
        f = self.flags
        if '-7' in f or '7bit' in self.options:
            return True
        if '-8' in f or '8bit' in self.options:
            return False
        # manual: -Cf / -CF without equivalence classes default to 7 bit
        for x in f:
            if x.startswith('-C') and ('f' in x or 'F' in x) and 'e' not in x and 'm' not in x:
                return True
        return False

    @property
    def table_kind(self):
        for x in self.flags:
            if x.startswith('-C'):
                if 'F' in x:
                    return 'fullspd'
                if 'f' in x:
                    return 'fulltbl'
        if 'full' in self.options:
            return 'fulltbl'
        if 'fast' in self.options:
            return 'fullspd'
        return 'compressed'

    def __repr__(self):
        return 'Config(%s)' % self.name


class Generated:
    pass


def gen_scanner(tree, workdir, spec, cfg, action=None, eof_action=None, extra_options=(),
                prologue='', sect2_prologue='', base='scanner', keep_lines=False, epilogue=''):
    """Render spec with harness actions, run the real flex, return Generated."""
    os.makedirs(workdir, exist_ok=True)
    if action is None:
        action = lambda r: 'return %d;' % spec_action_id(spec, r)
    if eof_action is None:
        eof_action = lambda k, e: 'return %d;' % (1000 + k)
    opts = list(cfg.options) + list(extra_options)
    if cfg.api == 'r':
        opts.append('reentrant')
    if cfg.api == 'c99':
        opts.append('noyypanic')
    text = spec.render(action, extra_options=opts, eof_action=eof_action, prologue=prologue,
                       sect2_prologue=sect2_prologue, epilogue=epilogue,
                       append_rules=(['<*>.|\\n return %d;' % spec.default_rule.num]
                                     if (cfg.api == 'c99' and not (spec.has_opt('nodefault') or '-s' in spec.flags + cfg.flags)) else []))
    lpath = os.path.join(workdir, base + '.l')
    with open(lpath, 'w', encoding='latin-1') as fh:
        fh.write(text)
    cpath = os.path.join(workdir, base + '.c')
    if os.path.exists(cpath):
        os.unlink(cpath)
    args = list(spec.flags) + list(cfg.flags)
    if cfg.api == 'c99':
        args.append('--emit=c99')
    if not keep_lines:
        args.append('-L')
    args += ['-o', base + '.c', base + '.l']
    rc, out, err = build.flex_run(tree, args, cwd=workdir)
    g = Generated()
    g.rc, g.stdout, g.stderr = rc, out, err
    g.lpath, g.cpath = lpath, cpath
    g.args = args
    g.ok = (rc == 0 and os.path.exists(cpath))
    g.text = ''
    if g.ok:
        with open(cpath, errors='replace') as fh:
            g.text = fh.read()
    g.spec, g.cfg = spec, cfg
    g.ltext = text
    return g


def spec_action_id(spec, r):
    """Token returned by rule r's action: with the '|' action a rule shares
    the action of the next rule that has one."""
    rules = spec.rules
    i = r.num - 1
    while i < len(rules) and rules[i].fallthrough:
        i += 1
    return rules[i].num if i < len(rules) else r.num


def is_array(g):
    return 'M4_MODE_YYTEXT_IS_ARRAY */' in g.text and 'M4_MODE_NO_YYTEXT_IS_ARRAY */' not in g.text


def has_name(g, name):
    return re.search(r'\b%s\b' % re.escape(name), g.text) is not None


def table_facts(g):
    """Facts read from the generated file, used only to derive loop bounds."""
    f = {}
    t = g.text
    for k in ('YY_NUM_RULES', 'YY_END_OF_BUFFER', 'YY_JAMSTATE', 'YY_JAMBASE', 'YY_NUL_EC'):
        m = re.search(r'#define %s (-?\d+)' % k, t)
        if m:
            f[k] = int(m.group(1))
    arrays = {}
    for m in re.finditer(r'static const (?:YY_CHAR|(?:flex_)?u?int\d+_t|yy_state_type|short|int|long)\s+(yy_\w+)\[(\d+)\]\s*=\s*\{([^}]*)\}', t):
        try:
            arrays[m.group(1)] = [int(x) for x in m.group(3).replace('\n', ' ').split(',') if x.strip()]
        except ValueError:
            pass
    f['arrays'] = arrays
    # depth of the default chain of the compressed tables
    depth = 0
    if 'yy_def' in arrays and 'YY_JAMSTATE' in f:
        d = arrays['yy_def']
        memo = {}
        for s in range(len(d)):
            k, cur, seen = 0, s, set()
            while 0 <= cur < len(d) and cur not in seen and k < 64:
                seen.add(cur)
                nxt = d[cur]
                if nxt == cur:
                    break
                k += 1
                cur = nxt
                if cur == f['YY_JAMSTATE']:
                    break
            depth = max(depth, k)
    f['chain_depth'] = depth
    f['lastdfa'] = None
    m = re.search(r'/\* lastdfa: (\d+) \*/', t)
    if m:
        f['lastdfa'] = int(m.group(1))
    return f


# ---------------------------------------------------------------------------
# API adapters

def adapter(cfg, g):
    """C text that maps VP_* macros onto the API flavour."""
    if cfg.api == 'nr':
        return r'''
#define VP_DECL_SCANNER
#define VP_INIT_SCANNER() ((void)0)
#define VP_LEX() yylex()
#define VP_SCAN_BUFFER(b, n) yy_scan_buffer((b), (n))
#define VP_SCAN_BYTES(b, n) yy_scan_bytes((b), (n))
#define VP_SCAN_STRING(b) yy_scan_string((b))
#define VP_PREV_STATE() yy_get_previous_state()
#define VP_TRY_NUL(s) yy_try_NUL_trans(s)
#define VP_DESTROY() yylex_destroy()
#define VP_G(x) (x)
#define VP_TEXT yytext
#define VP_LENG yyleng
#define VP_TEXTPTR (yytext_ptr)
#define VP_BEGIN(s) yybegin(s)
#define VP_START() yystart()
#define VP_SETBOL(b) yysetbol(b)
#define VP_ATBOL() yyatbol()
#define VP_CURBUF() yy_current_buffer()
#define VP_LINENO() yylineno
#define VP_A0
#define VP_A1
'''
    if cfg.api == 'r':
        return r'''
#define VP_DECL_SCANNER yyscan_t vp_scanner; yyscan_t yyscanner; struct yyguts_t *yyg;
#define VP_INIT_SCANNER() do { int vp_rc = yylex_init(&vp_scanner); VP_ASSERT(vp_rc == 0, "yylex_init succeeds"); yyg = (struct yyguts_t *)vp_scanner; yyscanner = vp_scanner; } while (0)
#define VP_LEX() yylex(vp_scanner)
#define VP_SCAN_BUFFER(b, n) yy_scan_buffer((b), (n), vp_scanner)
#define VP_SCAN_BYTES(b, n) yy_scan_bytes((b), (n), vp_scanner)
#define VP_SCAN_STRING(b) yy_scan_string((b), vp_scanner)
#define VP_PREV_STATE() yy_get_previous_state(vp_scanner)
#define VP_TRY_NUL(s) yy_try_NUL_trans((s), vp_scanner)
#define VP_DESTROY() yylex_destroy(vp_scanner)
#define VP_G(x) (yyg->x)
#define VP_TEXT yytext
#define VP_LENG yyleng
#define VP_TEXTPTR (yyg->yytext_ptr)
#define VP_BEGIN(s) yybegin(s)
#define VP_START() yystart()
#define VP_SETBOL(b) yysetbol(b)
#define VP_ATBOL() yyatbol()
#define VP_CURBUF() yy_current_buffer()
#define VP_LINENO() yyget_lineno(vp_scanner)
#define VP_A0 vp_scanner
#define VP_A1 , vp_scanner
'''
    if cfg.api == 'c99':
        return r'''
#define VP_DECL_SCANNER yyscan_t vp_scanner;
#define VP_INIT_SCANNER() do { int vp_rc = yylex_init(&vp_scanner); VP_ASSERT(vp_rc == 0, "yylex_init succeeds"); } while (0)
#define VP_LEX() yylex(vp_scanner)
#define VP_SCAN_BUFFER(b, n) yy_scan_buffer((b), (n), vp_scanner)
#define VP_SCAN_BYTES(b, n) yy_scan_bytes((b), (n), vp_scanner)
#define VP_SCAN_STRING(b) yy_scan_string((b), vp_scanner)
#define VP_PREV_STATE() yy_get_previous_state(vp_scanner)
#define VP_TRY_NUL(s) yy_try_NUL_trans((s), vp_scanner)
#define VP_DESTROY() yylex_destroy(vp_scanner)
#define VP_G(x) (vp_scanner->x)
#define VP_TEXT (vp_scanner->yytext_r)
#define VP_LENG (vp_scanner->yyleng_r)
#define VP_TEXTPTR (vp_scanner->yytext_r)
#define VP_BEGIN(s) yybegin((s), vp_scanner)
#define VP_START() yystart(vp_scanner)
#define VP_SETBOL(b) yysetbol((b), vp_scanner)
#define VP_ATBOL() yyatbol(vp_scanner)
#define VP_CURBUF() yy_current_buffer(vp_scanner)
#define VP_LINENO() yyget_lineno(vp_scanner)
#define VP_A0 vp_scanner
#define VP_A1 , vp_scanner
'''
    raise ValueError(cfg.api)


ALLOC = r'''
/* replacement allocator (%option noyyalloc noyyrealloc noyyfree): exact-size
 * blocks, never fails in functional harnesses */
void *yyalloc(VP_SIZE_T n VP_ALLOC_EXTRA) { void *p = malloc(n); VP_ASSUME(p != 0); return p; }
void *yyrealloc(void *q, VP_SIZE_T n VP_ALLOC_EXTRA) { void *p = realloc(q, n); VP_ASSUME(p != 0); return p; }
void yyfree(void *p VP_ALLOC_EXTRA) { free(p); }
'''


def common_head(g, cfg, spec, nmax, nodefault=False):
    ref = S.emit_reference(spec, nmax)
    head = ['#include "vp_harness.h"',
            ref,
            'static const char *vp_fatal_msg; static int vp_expect_fatal;',
            'static void vp_fatal(const char *m);']
    if cfg.api == 'c99':
        head += ['struct yyguts_t;',
                 'static void yypanic(const char *m, struct yyguts_t *s) { (void)s; vp_fatal(m); }',
                 'void *yyalloc(size_t, struct yyguts_t *); void *yyrealloc(void *, size_t, struct yyguts_t *); void yyfree(void *, struct yyguts_t *);',
                 '#define VP_SIZE_T size_t',
                 '#define VP_ALLOC_EXTRA , struct yyguts_t *vp_unused_scanner']
    else:
        head += ['#define YY_FATAL_ERROR(m) vp_fatal(m)',
                 '#define yyecho() return VP_DEFAULT_RULE',
                 '#define VP_SIZE_T yy_size_t']
        if cfg.api == 'r':
            head.append('#define VP_ALLOC_EXTRA , yyscan_t vp_unused_scanner')
        else:
            head.append('#define VP_ALLOC_EXTRA')
    head += ['#include "%s"' % os.path.basename(g.cpath), adapter(cfg, g), ALLOC]
    head.append(r'''
static void vp_fatal(const char *m) {
  vp_fatal_msg = m;
  VP_ASSERT(vp_expect_fatal, "fatal error hook reached unexpectedly");
#ifdef VP_WITNESS_FATAL
  VP_ASSERT(0, "WITNESS: the fatal-error hook is reached");
#endif
  VP_END_PATH();
}
''')
    return '\n'.join(head)


def action_table(spec):
    ids = [0] + [spec_action_id(spec, r) for r in spec.rules] + [spec.default_rule.num]
    return 'static const int vp_actid[] = {%s};' % ','.join(str(i) for i in ids)


def eof_table(spec):
    """Expected return of yylex at end of input per start condition."""
    exp = []
    for i in range(len(spec.sconds)):
        v = 0
        for k, e in enumerate(spec.eofs):
            if e['sc'] is not None and i in e['sc']:
                v = 1000 + k
                break
        else:
            # an unqualified <<EOF>> applies to conditions lacking their own
            # *at that point of the file* (manual); qualified ones listed
            # later in the file still take the condition
            for k, e in enumerate(spec.eofs):
                if e['sc'] is None:
                    own_before = any(e2['sc'] is not None and i in e2['sc'] for e2 in spec.eofs[:k])
                    if not own_before:
                        v = 1000 + k
                        break
        exp.append(v)
    return 'static const int vp_eofret[] = {%s};' % ','.join(str(v) for v in exp)


def e1_harness(g, cfg, spec, n, maxnul, nodefault=False, witness=None, check_post=True, source='buffer', interior=False):
    """First-token step harness for input length n.  interior: restricted to the inputs on which the
    match attempt of the first token jams inside the n bytes (the reference has no live rule after byte
    n), so the end-of-buffer code is not entered; its back edges then get unwind bound 1 and the
    unwinding assertions prove they are not taken."""
    H = [common_head(g, cfg, spec, max(n, 1), nodefault)]
    H.append(action_table(spec))
    H.append(eof_table(spec))
    H.append('#define VP_N %d' % n)
    H.append('#define VP_MAXNUL %d' % maxnul)
    H.append('#define VP_7BIT %d' % (1 if cfg.seven_bit or spec.csize == 128 else 0))
    H.append('#define VP_NODEFAULT %d' % (1 if nodefault else 0))
    H.append('#define VP_YYLINENO %d' % (1 if ('M4_MODE_YYLINENO */' in g.text) else 0))
    H.append('#define VP_CHECK_POST %d' % (1 if (check_post and source == 'buffer') else 0))
    H.append('#define VP_SOURCE_%s 1' % source.upper())
    H.append('#define VP_ARRAY %d' % (1 if is_array(g) else 0))
    H.append('#define VP_INTERIOR %d' % (1 if interior else 0))
    if witness:
        H.append('#define VP_WITNESS_RULE %d' % witness)
    H.append(r'''
unsigned char vpi_in[VP_N > 0 ? VP_N : 1];
int vpi_sc, vpi_bol;
static char vp_buf[VP_N + 2];

int main(void) {
  VP_DECL_SCANNER
#ifdef REPLAY
#include "vp_replay_set.inc"
#else
  for (int i = 0; i < VP_N; i++) vpi_in[i] = nondet_uchar();
  vpi_sc = nondet_int(); vpi_bol = nondet_int();
#endif
  VP_ASSUME(vpi_sc >= 0 && vpi_sc < VP_NSC);
  VP_ASSUME(vpi_bol == 0 || vpi_bol == 1);
  int nuls = 0;
  for (int i = 0; i < VP_N; i++) {
    if (vpi_in[i] == 0) nuls++;
#if VP_7BIT
    VP_ASSUME(vpi_in[i] < 128);
#endif
    vp_buf[i] = (char)vpi_in[i];
  }
  VP_ASSUME(nuls <= VP_MAXNUL);
  vp_buf[VP_N] = 0; vp_buf[VP_N + 1] = 0;

  /* reference first */
  int tot = 0;
  int rr = vp_first_token(vpi_in, VP_N, vpi_sc, vpi_bol, &tot);
  vp_expect_fatal = (VP_NODEFAULT && VP_N > 0 && rr == VP_DEFAULT_RULE);
#if VP_INTERIOR
  { vp_state s; vp_init(&s);
    for (int i = 0; i < VP_N; i++) vp_step(&s, i == 0, vpi_in[i], vpi_sc, vpi_bol);
    VP_ASSUME(!vp_alive(&s)); }      /* the match attempt has jammed at the last byte at the latest */
#endif

  VP_INIT_SCANNER();
#if defined(VP_SOURCE_BYTES)
  yybuffer b = VP_SCAN_BYTES(vp_buf, VP_N);
  VP_ASSERT(b != 0, "yy_scan_bytes");
  for (int i = 0; i < VP_N; i++) vp_buf[i] = '#';      /* the scanner works on a private copy */
#elif defined(VP_SOURCE_STRING)
  yybuffer b = VP_SCAN_STRING(vp_buf);
  VP_ASSERT(b != 0, "yy_scan_string");
  for (int i = 0; i < VP_N; i++) vp_buf[i] = '#';
#else
  yybuffer b = VP_SCAN_BUFFER(vp_buf, VP_N + 2);
  VP_ASSERT(b != 0, "yy_scan_buffer accepts a doubly NUL-terminated buffer");
#endif
  VP_BEGIN(vpi_sc);
  VP_SETBOL(vpi_bol);
  int t = VP_LEX();
  const char *tx = VP_TEXT; int tl = VP_LENG;
#ifdef VP_WITNESS_RULE
  VP_ASSERT(!(VP_N > 0 && t == VP_WITNESS_RULE && tl == VP_N), "WITNESS: long token of chosen rule reachable");
  return 0;
#endif
  if (VP_N == 0) {
    VP_ASSERT(t == vp_eofret[vpi_sc], "end of input: EOF action of the current start condition");
    return 0;
  }
  VP_ASSERT(rr >= 1, "reference selects a rule");
  VP_ASSERT(t == vp_actid[rr], "selected rule (longest match, first rule)");
  if (vp_has_trail(rr)) {
    VP_ASSERT(vp_split_ok(rr, vpi_in, tl, tot), "trailing context: yytext is the head of a valid split of the longest match");
  } else {
    VP_ASSERT(tl == tot, "yyleng is the longest match length");
  }
  VP_ASSERT(tl >= 0 && tl <= VP_N, "yyleng within input");
#if defined(VP_SOURCE_BUFFER)
#if VP_ARRAY
  VP_ASSERT(VP_TEXTPTR == vp_buf, "token starts at the scan position");
#else
  VP_ASSERT(tx == vp_buf, "yytext points at the token start");
#endif
#endif
  for (int i = 0; i < VP_N; i++)
    if (i < tl) VP_ASSERT((unsigned char)tx[i] == vpi_in[i], "yytext bytes");
  VP_ASSERT(tx[tl] == 0, "yytext is NUL terminated");
  {
    int nl = 0;
    for (int i = 0; i < VP_N; i++) if (i < tl && vpi_in[i] == '\n') nl++;
#if VP_YYLINENO
    VP_ASSERT(VP_LINENO() == 1 + nl, "yylineno is one plus the number of newlines consumed");
#else
    VP_ASSERT(VP_LINENO() == 1, "without %option yylineno the line number is never modified");
#endif
  }
#if VP_CHECK_POST
  /* post-state: the scanner is positioned exactly behind the token, so the
   * next call is again a first-token step on the suffix */
  VP_ASSERT(VP_G(yy_c_buf_p) == vp_buf + tl, "scan position is behind the token");
  VP_ASSERT((unsigned char)VP_G(yy_hold_char) == (tl < VP_N ? vpi_in[tl] : 0), "held character is the next input byte");
  for (int i = 0; i < VP_N + 2; i++)
    if (i > tl) VP_ASSERT((unsigned char)vp_buf[i] == (i < VP_N ? vpi_in[i] : 0), "unread input untouched");
#if VP_HAS_BOL
  if (tl > 0) VP_ASSERT((VP_ATBOL() != 0) == (vpi_in[tl - 1] == '\n'), "beginning-of-line flag after token");
#endif
  VP_ASSERT(VP_START() == vpi_sc, "start condition unchanged by scanning");
#endif
  return 0;
}
''')
    return '\n'.join(H)


def e2_harness(g, cfg, spec, nmax, witness_len=None, use_acclist=False):
    """DFA walk through the scanner's own yy_get_previous_state()."""
    H = [common_head(g, cfg, spec, nmax)]
    H.append(action_table(spec))
    kind = cfg.table_kind
    H.append('#define VP_N %d' % nmax)
    H.append('#define VP_7BIT %d' % (1 if cfg.seven_bit or spec.csize == 128 else 0))
    H.append('#define VP_FULLTBL %d' % (1 if kind == 'fulltbl' else 0))
    H.append('#define VP_ACCLIST %d' % (1 if use_acclist else 0))
    H.append('#define VP_TRAILMASK %d' % (1 if has_name(g, 'YY_TRAILING_HEAD_MASK') else 0))
    H.append('#define VP_INTERACTIVE_TEST %d' % (1 if (kind == 'compressed' and 'YY_JAMBASE' in g.text) else 0))
    if witness_len is not None:
        H.append('#define VP_WITNESS_LEN %d' % witness_len)
    H.append(r'''
unsigned char vpi_in[VP_N];
int vpi_len, vpi_sc, vpi_bol;
static char vp_buf[VP_N + 2];

int main(void) {
  VP_DECL_SCANNER
#ifdef REPLAY
#include "vp_replay_set.inc"
#else
  for (int i = 0; i < VP_N; i++) vpi_in[i] = nondet_uchar();
  vpi_len = nondet_int(); vpi_sc = nondet_int(); vpi_bol = nondet_int();
#endif
  VP_ASSUME(vpi_len >= 0 && vpi_len <= VP_N);
  VP_ASSUME(vpi_sc >= 0 && vpi_sc < VP_NSC);
  VP_ASSUME(vpi_bol == 0 || vpi_bol == 1);
  vp_state s; vp_init(&s);
  int alive = 1;
  for (int i = 0; i < VP_N; i++) {
#if VP_7BIT
    VP_ASSUME(vpi_in[i] < 128);
#endif
    vp_buf[i] = (char)vpi_in[i];
    if (i < vpi_len) {
      VP_ASSUME(alive);           /* no jam on a proper prefix */
      vp_step(&s, i == 0, vpi_in[i], vpi_sc, vpi_bol);
      alive = vp_alive(&s);
    }
  }
  vp_buf[VP_N] = 0; vp_buf[VP_N + 1] = 0;
#if VP_FULLTBL
  /* full tables: the scanner never recomputes the state of text that jammed
   * (negative state numbers would index out of range), so the walk stays on
   * live strings; jamming is decided by the yylex step obligations */
  VP_ASSUME(alive);
#endif
  vp_expect_fatal = 0;
  VP_INIT_SCANNER();
  yybuffer b = VP_SCAN_BUFFER(vp_buf, VP_N + 2);
  VP_ASSERT(b != 0, "yy_scan_buffer");
  VP_BEGIN(vpi_sc);
  VP_SETBOL(vpi_bol);
  /* white box: position the scanner as if vpi_len bytes had been matched */
  VP_TEXTPTR = vp_buf;
  VP_G(yy_c_buf_p) = vp_buf + vpi_len;
#if VP_ACCLIST
  VP_G(yy_state_ptr) = VP_G(yy_state_buf);
#endif
  yy_state_type st = VP_PREV_STATE();
#ifdef VP_WITNESS_LEN
  VP_ASSERT(!(vpi_len == VP_WITNESS_LEN && alive), "WITNESS: a live state at full depth is reachable");
  return 0;
#endif
#if VP_FULLTBL
  int jam = (st <= 0);
#else
  int jam = (st == YY_JAMSTATE);
#endif
  if (vpi_len == 0) {
    VP_ASSERT(!jam, "start state is not the jam state");
    return 0;
  }
  VP_ASSERT(jam == !alive, "automaton jams exactly when no rule can still match");
  if (alive) {
    uint64_t acc = vp_accset(&s);
#if VP_ACCLIST
    /* REJECT / variable trailing context scanners: accepting list of the state */
    int lo = yy_accept[st], hi = yy_accept[st + 1];
    uint64_t got = 0; int sorted = 1, prev = 0;
    for (int k = 0; k < VP_NRULES + 2; k++) {
      if (lo + k >= hi) break;
      int a = yy_acclist[lo + k];
#if VP_TRAILMASK
      if (a & YY_TRAILING_HEAD_MASK) continue;
      a &= ~YY_TRAILING_MASK;
#endif
      if (a <= VP_NRULES) got |= UINT64_C(1) << a;
      if (a < prev) sorted = 0;
      prev = a;
    }
    VP_ASSERT(got == acc, "accepting list of the state is exactly the set of matching rules");
    VP_ASSERT(sorted, "accepting list is in rule order");
#else
    VP_ASSERT(yy_accept[st] == vp_first_rule(acc), "accepting rule of the state is the first matching rule");
#endif
#if VP_INTERACTIVE_TEST
    VP_ASSERT((yy_base[st] == YY_JAMBASE) == !vp_has_out(&s), "state is marked final exactly when no longer match is possible");
#endif
  }
  return 0;
}
''')
    return '\n'.join(H)


# ---------------------------------------------------------------------------
# E3: tokens through refills (buffer of capacity BS, symbolic read schedule)

POOL_ALLOC = r'''
/* bounded replacement allocator: every block has the fixed capacity VP_CAP
 * (sizes handed to malloc never become symbolic); requests above the
 * capacity are outside the bound of this harness.  A small header keeps the
 * requested size for yyrealloc and the ledger. */
#ifndef VP_CAP
#define VP_CAP 72
#endif
#ifndef VP_RCAP
#define VP_RCAP 24
#endif
#define VP_HDR 16
static int vp_live_blocks, vp_alloc_calls, vp_free_calls, vp_realloc_calls;
static void *vp_new(size_t n) {
  VP_ASSUME(n <= VP_CAP);              /* larger requests: outside the bound */
  char *p = (char *)malloc(VP_CAP + VP_HDR);
  VP_ASSUME(p != 0);
  *(size_t *)p = n;
  vp_live_blocks++; vp_alloc_calls++;
  return p + VP_HDR;
}
void *yyalloc(VP_SIZE_T n VP_ALLOC_EXTRA) { return vp_new(n); }
void yyfree(void *p VP_ALLOC_EXTRA) {
  vp_free_calls++;
  if (p == 0) return;
  vp_live_blocks--;
  free((char *)p - VP_HDR);
}
void *yyrealloc(void *q, VP_SIZE_T n VP_ALLOC_EXTRA) {
  /* every block already has capacity VP_CAP, so growing is done in place (a
   * conforming realloc may return its argument); this keeps every scanner
   * pointer single-target for the solver */
  if (q == 0) return vp_new(n);
  VP_ASSUME(n <= VP_CAP);
  *(size_t *)((char *)q - VP_HDR) = n;
  vp_realloc_calls++;
  return q;
}
'''


def head_with_pool(g, cfg, spec, nmax, pre_include='', pool=False):
    """common_head variant using the pool allocator and a harness YY_INPUT."""
    h = common_head(g, cfg, spec, nmax)
    if pool:
        h = h.replace(ALLOC, POOL_ALLOC)
    if pre_include:
        marker = '#include "%s"' % os.path.basename(g.cpath)
        h = h.replace(marker, pre_include + '\n' + marker)
    return h


def e3_harness(g, cfg, spec, m, bs, tokens=2, source='yyinput_macro', witness=False, maxnul=1):
    """Stream of m symbolic bytes delivered through a buffer of capacity bs
    with a symbolic read-size schedule; up to `tokens` yylex() calls."""
    pre = ''
    if source == 'yyinput_macro':
        pre = ('static int vp_read(char *buf, int max_size);\n'
               '#define YY_INPUT(buf, result, max_size) do { (result) = vp_read((buf), (int)(max_size)); } while (0)')
    H = [head_with_pool(g, cfg, spec, max(m, 1), pre_include=pre)]
    H.append(action_table(spec))
    H.append(eof_table(spec))
    H.append('#define VP_M %d' % m)
    H.append('#define VP_BS %d' % bs)
    H.append('#define VP_TOKENS %d' % tokens)
    H.append('#define VP_MAXNUL %d' % maxnul)
    H.append('#define VP_7BIT %d' % (1 if cfg.seven_bit or spec.csize == 128 else 0))
    H.append('#define VP_ARRAY %d' % (1 if is_array(g) else 0))
    if witness:
        H.append('#define VP_WITNESS 1')
    if isinstance(witness, str):
        H.append('#define VP_PROBE ' + witness)
    H.append(r'''
unsigned char vpi_in[VP_M > 0 ? VP_M : 1];
unsigned char vpi_chunk[VP_M + 2];
int vpi_sc;
static int vp_pos, vp_reads, vp_eof_seen, vp_max_request;
static int vp_fake_file;

static int vp_read(char *buf, int max_size) {
  VP_ASSERT(max_size >= 1, "read request asks for at least one byte");
  int avail = VP_M - vp_pos;
  if (avail <= 0) { vp_eof_seen++; return 0; }
  VP_ASSERT(vp_reads < VP_M + 2, "bounded number of reads");
  int k = vpi_chunk[vp_reads < VP_M + 1 ? vp_reads : VP_M + 1];
  vp_reads++;
  VP_ASSUME(k >= 1 && k <= avail && k <= max_size);
  for (int i = 0; i < VP_M; i++) if (i < k) buf[i] = (char)vpi_in[vp_pos + i];
  vp_pos += k;
  return k;
}

int main(void) {
  VP_DECL_SCANNER
#ifdef REPLAY
#include "vp_replay_set.inc"
#else
  for (int i = 0; i < VP_M; i++) vpi_in[i] = nondet_uchar();
  for (int i = 0; i < VP_M + 2; i++) vpi_chunk[i] = nondet_uchar();
  vpi_sc = nondet_int();
#endif
  VP_ASSUME(vpi_sc >= 0 && vpi_sc < VP_NSC);
  int nuls = 0;
  for (int i = 0; i < VP_M; i++) {
    if (vpi_in[i] == 0) nuls++;
#if VP_7BIT
    VP_ASSUME(vpi_in[i] < 128);
#endif
  }
  VP_ASSUME(nuls <= VP_MAXNUL);
  vp_expect_fatal = 0;
  VP_INIT_SCANNER();
  yybuffer b = yy_create_buffer((FILE *)&vp_fake_file, VP_BS VP_A1);
  VP_ASSERT(b != 0, "yy_create_buffer");
  yy_switch_to_buffer(b VP_A1);
  VP_BEGIN(vpi_sc);
  int off = 0, bol = 1, refilled_tokens = 0;
  for (int t = 0; t < VP_TOKENS; t++) {
    int tot = 0;
    int rr = vp_first_token(vpi_in + off, VP_M - off, vpi_sc, bol, &tot);
    int reads_before = vp_reads;
    int tk = VP_LEX();
    if (off >= VP_M) {
      VP_ASSERT(tk == vp_eofret[vpi_sc], "end of input after all buffered text was tokenised");
      VP_ASSERT(vp_pos == VP_M, "every source byte was read");
      break;
    }
    const char *tx = VP_TEXT; int tl = VP_LENG;
#ifdef VP_PROBE
    VP_ASSERT(!(t == 0 && (VP_PROBE)), "WITNESS: probe");
#endif
    VP_ASSERT(tk == vp_actid[rr], "token rule independent of delivery");
    if (vp_has_trail(rr)) VP_ASSERT(vp_split_ok(rr, vpi_in + off, tl, tot), "trailing context split");
    else VP_ASSERT(tl == tot, "token length independent of delivery");
    VP_ASSERT(tl >= 1 && off + tl <= VP_M, "token within the stream");
    for (int i = 0; i < VP_M; i++) if (i < tl) VP_ASSERT((unsigned char)tx[i] == vpi_in[off + i], "token text independent of delivery");
    VP_ASSERT(tx[tl] == 0, "yytext terminated");
    if (vp_reads - reads_before > 1) refilled_tokens++;
    bol = (vpi_in[off + tl - 1] == '\n');
    off += tl;
  }
#ifdef VP_WITNESS
  VP_ASSERT(!(refilled_tokens > 0 && off == VP_M), "WITNESS: a token spanning two reads was delivered and the stream was consumed");
#endif
  return 0;
}
''')
    return '\n'.join(H)


# ---------------------------------------------------------------------------
# G1: yy_get_next_buffer() as a unit, from an arbitrary valid buffer state

def gnb_harness(g, cfg, spec, cap, m, witness=False):
    """White box (non-reentrant / reentrant C skeleton): arbitrary buffer of
    capacity bs <= cap with fill n, partial token starting at ts, m more
    source bytes, symbolic read size; one call of yy_get_next_buffer()."""
    pre = ('static int vp_read(char *buf, int max_size);\n'
           '#define YY_INPUT(buf, result, max_size) do { (result) = vp_read((buf), (int)(max_size)); } while (0)')
    h = common_head(g, cfg, spec, 1)
    marker = '#include "%s"' % os.path.basename(g.cpath)
    h = h.replace(marker, pre + '\n' + marker)
    h = h.replace(ALLOC, r'''
/* in-place allocator for the one buffer under test: growth stays inside the
 * static arena of VP_CAP+2 bytes; larger requests are outside the bound */
static int vp_realloc_calls; static size_t vp_last_realloc;
static char vp_mem[VP_ARENA];
void *yyalloc(VP_SIZE_T n VP_ALLOC_EXTRA) { void *p = malloc(n); VP_ASSUME(p != 0); return p; }
void *yyrealloc(void *q, VP_SIZE_T n VP_ALLOC_EXTRA) {
  VP_ASSERT(q == (void *)vp_mem, "only the character buffer is regrown");
  vp_realloc_calls++; vp_last_realloc = n;
  VP_ASSUME(n <= VP_ARENA);            /* larger: outside the bound */
  return q;
}
void yyfree(void *p VP_ALLOC_EXTRA) { }
''')
    H = ['#define VP_CAP %d' % cap, '#define VP_ARENA %d' % (4 * cap + 8), h]
    H.append('#define VP_M %d' % m)
    H.append('#define VP_ARRAY %d' % (1 if is_array(g) else 0))
    if witness:
        H.append('#define VP_WITNESS 1')
    H.append(r'''
unsigned char vpi_buf[VP_CAP], vpi_src[VP_M > 0 ? VP_M : 1];
int vpi_bs, vpi_n, vpi_ts, vpi_k, vpi_status, vpi_ours, vpi_avail;
static int vp_fake_file, vp_reads, vp_req, vp_got;
static char *vp_req_buf;
static struct yy_buffer_state vp_bs;
static yybuffer vp_stack[1];

static int vp_read(char *buf, int max_size) {
  vp_reads++; vp_req = max_size; vp_req_buf = buf;
  VP_ASSERT(max_size >= 1, "read request asks for at least one byte");
  if (vpi_avail == 0) return 0;
  VP_ASSUME(vpi_k >= 1 && vpi_k <= vpi_avail && vpi_k <= max_size);
  for (int i = 0; i < VP_M; i++) if (i < vpi_k) buf[i] = (char)vpi_src[i];
  vp_got = vpi_k;
  return vpi_k;
}

int main(void) {
  VP_DECL_SCANNER
#ifdef REPLAY
#include "vp_replay_set.inc"
#else
  for (int i = 0; i < VP_CAP; i++) vpi_buf[i] = nondet_uchar();
  for (int i = 0; i < VP_M; i++) vpi_src[i] = nondet_uchar();
  vpi_bs = nondet_int(); vpi_n = nondet_int(); vpi_ts = nondet_int(); vpi_k = nondet_int();
  vpi_status = nondet_int(); vpi_ours = nondet_int(); vpi_avail = nondet_int();
#endif
  VP_ASSUME(vpi_bs >= 1 && vpi_bs <= VP_CAP);
  VP_ASSUME(vpi_n >= 0 && vpi_n <= vpi_bs);
  VP_ASSUME(vpi_ts >= 0 && vpi_ts <= vpi_n);
  VP_ASSUME(vpi_status == YY_BUFFER_NORMAL || vpi_status == YY_BUFFER_EOF_PENDING || vpi_status == YY_BUFFER_NEW);
  VP_ASSUME(vpi_ours == 0 || vpi_ours == 1);
  VP_ASSUME(vpi_avail >= 0 && vpi_avail <= VP_M);
  VP_INIT_SCANNER();
  for (int i = 0; i < VP_CAP; i++) if (i < vpi_n) vp_mem[i] = (char)vpi_buf[i];
  vp_mem[vpi_n] = 0; vp_mem[vpi_n + 1] = 0;
  vp_bs.yy_input_file = (FILE *)&vp_fake_file;
  vp_bs.yy_ch_buf = vp_mem; vp_bs.yy_buf_pos = vp_mem + vpi_ts;
  vp_bs.yy_buf_size = vpi_bs; vp_bs.yy_n_chars = vpi_n;
  vp_bs.yy_is_our_buffer = vpi_ours; vp_bs.yy_fill_buffer = 1; vp_bs.yy_buffer_status = vpi_status;
  vp_stack[0] = &vp_bs;
  VP_G(yy_buffer_stack) = vp_stack; VP_G(yy_buffer_stack_top) = 0; VP_G(yy_buffer_stack_max) = 1;
  VP_G(yy_n_chars) = vpi_n; VP_G(yy_init) = 1; VP_G(yy_start) = 1;
  yyin = (FILE *)&vp_fake_file;
  /* precondition of the call: the scanner has just consumed the first
   * end-of-buffer character behind the partial token */
  VP_TEXTPTR = vp_mem + vpi_ts;
  VP_G(yy_c_buf_p) = vp_mem + vpi_n + 1;
  VP_G(yy_hold_char) = 0;
  int pending = vpi_n - vpi_ts;                   /* bytes of the partial token */
  int room_needed = pending + 1;                  /* at least one more byte */
  /* user-owned buffer (yy_scan_buffer) that cannot hold one more byte: documented fatal error */
  vp_expect_fatal = (!vpi_ours && vpi_status != YY_BUFFER_EOF_PENDING && vpi_bs - pending - 1 <= 0);

  int ret = yy_get_next_buffer(VP_A0);

  int got = vp_got;
  int n2 = pending + got;
  if (vpi_status == YY_BUFFER_EOF_PENDING) VP_ASSERT(vp_reads == 0, "no read after end of input was seen");
  else VP_ASSERT(vp_reads == 1, "exactly one read request per refill");
  if (vp_reads) {
    VP_ASSERT(vp_req_buf == vp_bs.yy_ch_buf + pending, "new input is placed right behind the partial token");
    VP_ASSERT(pending + vp_req + 2 <= vp_bs.yy_buf_size + 2, "request leaves room for the two end-of-buffer characters");
  }
  VP_ASSERT(vp_bs.yy_ch_buf == vp_mem, "buffer memory");
  for (int i = 0; i < VP_CAP; i++) if (i < pending) VP_ASSERT((unsigned char)vp_mem[i] == vpi_buf[vpi_ts + i], "partial token moved to the buffer start unchanged");
  for (int i = 0; i < VP_M; i++) if (i < got) VP_ASSERT((unsigned char)vp_mem[pending + i] == vpi_src[i], "bytes read follow the partial token");
  VP_ASSERT(vp_mem[n2] == 0 && vp_mem[n2 + 1] == 0, "two end-of-buffer characters terminate the text");
  VP_ASSERT(VP_G(yy_n_chars) == n2, "character count");
  VP_ASSERT(VP_TEXTPTR == vp_mem, "token start reset to the buffer start");
  VP_ASSERT(n2 <= vp_bs.yy_buf_size, "text fits the recorded buffer size");
  if (got > 0) VP_ASSERT(ret == EOB_ACT_CONTINUE_SCAN, "input was read: continue scanning");
  else if (pending == 0) VP_ASSERT(ret == EOB_ACT_END_OF_FILE, "no input and no pending text: end of file");
  else {
    VP_ASSERT(ret == EOB_ACT_LAST_MATCH, "no input but pending text: match it first");
    VP_ASSERT(vp_bs.yy_buffer_status == YY_BUFFER_EOF_PENDING, "end of input remembered");
  }
  if (vp_realloc_calls) {
    VP_ASSERT(vpi_ours, "a buffer the scanner does not own is never regrown");
    VP_ASSERT(vp_last_realloc >= (size_t)vp_bs.yy_buf_size + 2, "regrown block holds the recorded size plus two end-of-buffer characters");
  }
#ifdef VP_WITNESS
  VP_ASSERT(!(vp_realloc_calls > 0 && got > 0 && pending > 0), "WITNESS: refill with growth and a partial token");
#endif
  return 0;
}
''')
    return '\n'.join(H)


# ---------------------------------------------------------------------------
# CAP: recorded capacities never exceed allocated sizes, over API histories

SIZED_ALLOC = r"""
/* allocator that remembers the size of every live block, so that the harness
 * can compare what the scanner BELIEVES a block holds with what it asked for */
#define VP_MAXBLK 24
static void *vp_blk[VP_MAXBLK]; static size_t vp_blksz[VP_MAXBLK];
static int vp_live, vp_bad_free;
static void vp_note(void *p, size_t n) {
  for (int i = 0; i < VP_MAXBLK; i++) if (vp_blk[i] == 0) { vp_blk[i] = p; vp_blksz[i] = n; return; }
  VP_ASSUME(0);                       /* more live blocks than the table holds: outside the bound */
}
static int vp_forget(void *p) {
  for (int i = 0; i < VP_MAXBLK; i++) if (vp_blk[i] == p) { vp_blk[i] = 0; return 1; }
  return 0;
}
static size_t vp_size_of(const void *p) {
  for (int i = 0; i < VP_MAXBLK; i++) if (vp_blk[i] == p) return vp_blksz[i];
  VP_ASSERT(0, "a pointer held by the scanner is a live block obtained from yyalloc/yyrealloc");
  return 0;
}
void *yyalloc(VP_SIZE_T n VP_ALLOC_EXTRA) { void *p = malloc(n); VP_ASSUME(p != 0); vp_note(p, n); vp_live++; return p; }
void *yyrealloc(void *q, VP_SIZE_T n VP_ALLOC_EXTRA) {
  if (q != 0 && !vp_forget(q)) vp_bad_free++;
  void *p = realloc(q, n); VP_ASSUME(p != 0); vp_note(p, n); if (q == 0) vp_live++; return p;
}
void yyfree(void *p VP_ALLOC_EXTRA) { if (p == 0) return; if (!vp_forget(p)) vp_bad_free++; else vp_live--; free(p); }
"""


def cap_harness(g, cfg, spec, op=0, witness=False):
    """Inductive step for the capacity invariant.  Pre-state: either a fresh
    scanner, or (white box) a buffer stack of two FILE buffers with SYMBOLIC
    recorded sizes, a REJECT state stack with symbolic recorded capacity, and
    a ledger of symbolic allocated sizes, constrained only by the invariant
       ledger(ch_buf) >= yy_buf_size + 2                 for every buffer,
       ledger(state_buf) >= state_buf_max * sizeof(state),
       state_buf == NULL or state_buf_max >= yy_buf_size + EXTRA   for the current buffer.
    One API call (per query) with symbolic arguments; the invariant must hold
    afterwards.  Storage behind every block is a fixed large object, so sizes
    stay plain integers for the solver."""
    pre = ('#define YY_BUF_SIZE 8   /* user-overridable default buffer size: keeps every block of the bound small */\n'
           'static int vp_read(char *buf, int max_size);\n'
           '#define YY_INPUT(buf, result, max_size) do { (result) = vp_read((buf), (int)(max_size)); } while (0)')
    h = common_head(g, cfg, spec, 1)
    marker = '#include "%s"' % os.path.basename(g.cpath)
    h = h.replace(marker, pre + '\n' + marker)
    h = h.replace(ALLOC, r"""
/* ledger allocator: every block is backed by VP_BIG bytes; the REQUESTED size
 * (possibly symbolic) is what the ledger records and what the invariant uses */
#define VP_BIG 256
#define VP_MAXBLK 12
static void *vp_blk[VP_MAXBLK]; static size_t vp_blksz[VP_MAXBLK];
static int vp_bad_free, vp_allocs;
static void vp_note(void *p, size_t n) {
  for (int i = 0; i < VP_MAXBLK; i++) if (vp_blk[i] == 0) { vp_blk[i] = p; vp_blksz[i] = n; return; }
  VP_ASSUME(0);
}
static int vp_forget(void *p) { for (int i = 0; i < VP_MAXBLK; i++) if (vp_blk[i] == p) { vp_blk[i] = 0; return 1; } return 0; }
static int vp_known(const void *p) { for (int i = 0; i < VP_MAXBLK; i++) if (vp_blk[i] == p) return 1; return 0; }
static size_t vp_size_of(const void *p) { for (int i = 0; i < VP_MAXBLK; i++) if (vp_blk[i] == p) return vp_blksz[i]; return 0; }
void *yyalloc(VP_SIZE_T n VP_ALLOC_EXTRA) { VP_ASSUME(n <= VP_BIG); void *p = malloc(VP_BIG); VP_ASSUME(p != 0); vp_note(p, n); vp_allocs++; return p; }
void *yyrealloc(void *q, VP_SIZE_T n VP_ALLOC_EXTRA) {
  VP_ASSUME(n <= VP_BIG);
  if (q == 0) { void *p = malloc(VP_BIG); VP_ASSUME(p != 0); vp_note(p, n); vp_allocs++; return p; }
  if (!vp_forget(q)) vp_bad_free++;
  vp_note(q, n);                      /* grown in place */
  return q;
}
void yyfree(void *p VP_ALLOC_EXTRA) { if (p == 0) return; if (!vp_forget(p)) vp_bad_free++; }
""")
    H = [h]
    H.append('#define VP_OP %d' % op)
    H.append('#define VP_NONREENTRANT %d' % (1 if cfg.api == 'nr' else 0))
    H.append('#define VP_REJECT %d' % (1 if has_name(g, 'yy_state_buf_max') else 0))
    if witness:
        H.append('#define VP_WITNESS 1')
    H.append(r"""
#define VP_MAXSIZE 40
int vp_rej_req;                  /* actions REJECT only if this is set (never): flex emits the REJECT machinery */
int vpi_fresh, vpi_depth, vpi_sz0, vpi_sz1, vpi_sznew, vpi_l0, vpi_l1, vpi_lnew, vpi_smax, vpi_lstate;
static int vp_fake_file;
#ifndef REPLAY
int isatty(int fd) { return 0; }
int fileno(FILE *f) { return 0; }
#define VP_FILE ((FILE *)&vp_fake_file)
#else
#define VP_FILE stdin
#endif
static int vp_read(char *buf, int max_size) { return 0; }
static struct yy_buffer_state vp_b0, vp_b1, vp_bn;
static yybuffer vp_stack[4];
static char vp_c0[VP_BIG], vp_c1[VP_BIG], vp_cn[VP_BIG];
#if VP_REJECT
static yy_state_type vp_states[VP_BIG / sizeof(yy_state_type)];
#endif

static void vp_mkbuf(yybuffer b, char *mem, int size, int ledger) {
  b->yy_input_file = VP_FILE; b->yy_ch_buf = mem; b->yy_buf_pos = mem; b->yy_buf_size = size; b->yy_n_chars = 0;
  b->yy_is_our_buffer = 1; b->yy_fill_buffer = 1; b->yy_buffer_status = YY_BUFFER_NEW; b->yyatbol = 1;
  mem[0] = 0; mem[1] = 0;
  vp_note(mem, (size_t)ledger); vp_note(b, sizeof(struct yy_buffer_state));
}

static void vp_check_caps(VP_CAPS_PARAMS) {
  VP_CAPS_PROLOGUE
  VP_ASSERT(vp_bad_free == 0, "every pointer given to yyfree/yyrealloc came from yyalloc/yyrealloc and was live");
  if (VP_G(yy_buffer_stack) != 0) {
    VP_ASSERT(vp_known(VP_G(yy_buffer_stack)), "buffer stack is a live block");
    VP_ASSERT(vp_size_of(VP_G(yy_buffer_stack)) >= VP_G(yy_buffer_stack_max) * sizeof(yybuffer), "buffer stack: recorded capacity is covered by the allocated block");
    VP_ASSERT(VP_G(yy_buffer_stack_top) < VP_G(yy_buffer_stack_max), "buffer stack: top inside the stack");
    for (int i = 0; i < 4; i++) if ((size_t)i <= VP_G(yy_buffer_stack_top)) {
      yybuffer b = VP_G(yy_buffer_stack)[i];
      if (b == 0) continue;
      VP_ASSERT(vp_known(b) && vp_known(b->yy_ch_buf), "buffers on the stack are live blocks");
      VP_ASSERT(b->yy_buf_size >= 1, "buffer size is positive");
      VP_ASSERT(vp_size_of(b->yy_ch_buf) >= (size_t)b->yy_buf_size + 2, "character buffer: recorded size plus the two end-of-buffer characters is covered by the allocated block");
#if VP_REJECT
      /* yylex() allocates the state stack only when there is none; whenever one exists it must hold one state per
       * character of a token that fills the CURRENT buffer (REJECT scanners never grow the buffer) */
      if (i == (int)VP_G(yy_buffer_stack_top))
        VP_ASSERT(VP_G(yy_state_buf) == 0 || VP_G(yy_state_buf_max) >= (size_t)b->yy_buf_size + YY_STATE_BUF_EXTRA_SPACE, "REJECT state stack holds a token that fills the current buffer");
#endif
    }
  }
#if VP_REJECT
  if (VP_G(yy_state_buf) != 0) {
    VP_ASSERT(vp_known(VP_G(yy_state_buf)), "REJECT state stack is a live block");
    VP_ASSERT(vp_size_of(VP_G(yy_state_buf)) >= VP_G(yy_state_buf_max) * sizeof(yy_state_type), "REJECT state stack: recorded capacity is covered by the allocated block");
  } else
    VP_ASSERT(VP_G(yy_state_buf_max) == 0, "REJECT state stack: no block, no capacity");
#endif
}

int main(void) {
  VP_DECL_SCANNER
#ifdef REPLAY
#include "vp_replay_set.inc"
#else
  vpi_fresh = nondet_int(); vpi_depth = nondet_int(); vpi_sz0 = nondet_int(); vpi_sz1 = nondet_int(); vpi_sznew = nondet_int();
  vpi_l0 = nondet_int(); vpi_l1 = nondet_int(); vpi_lnew = nondet_int(); vpi_smax = nondet_int(); vpi_lstate = nondet_int();
#endif
  VP_ASSUME(vpi_fresh == 0 || vpi_fresh == 1);
  VP_ASSUME(vpi_depth == 1 || vpi_depth == 2);
  VP_ASSUME(vpi_sz0 >= 1 && vpi_sz0 <= VP_MAXSIZE && vpi_sz1 >= 1 && vpi_sz1 <= VP_MAXSIZE && vpi_sznew >= 1 && vpi_sznew <= VP_MAXSIZE);
  /* invariant on the pre-state */
  VP_ASSUME(vpi_l0 >= vpi_sz0 + 2 && vpi_l0 <= VP_BIG && vpi_l1 >= vpi_sz1 + 2 && vpi_l1 <= VP_BIG && vpi_lnew >= vpi_sznew + 2 && vpi_lnew <= VP_BIG);
  vp_expect_fatal = 0;
  VP_INIT_SCANNER();
  yyin = VP_FILE; yyout = VP_FILE;
  if (!vpi_fresh) {
    vp_mkbuf(&vp_b0, vp_c0, vpi_sz0, vpi_l0);
    vp_stack[0] = &vp_b0;
    if (vpi_depth == 2) { vp_mkbuf(&vp_b1, vp_c1, vpi_sz1, vpi_l1); vp_stack[1] = &vp_b1; }
    vp_note(vp_stack, sizeof vp_stack);
    VP_G(yy_buffer_stack) = vp_stack; VP_G(yy_buffer_stack_top) = vpi_depth - 1; VP_G(yy_buffer_stack_max) = 4;
    VP_G(yy_init) = 1;
    { yybuffer cb = vp_stack[vpi_depth - 1];
      VP_G(yy_n_chars) = 0; VP_G(yy_c_buf_p) = cb->yy_ch_buf; VP_TEXTPTR = cb->yy_ch_buf; VP_G(yy_hold_char) = 0; }
#if VP_REJECT
    /* the state stack exists (yylex ran) or not yet (only buffer calls so far) */
    VP_ASSUME(vpi_smax >= 0 && vpi_smax <= VP_MAXSIZE + YY_STATE_BUF_EXTRA_SPACE);
    if (vpi_smax > 0) {
      VP_ASSUME(vpi_smax >= (vpi_depth == 2 ? vpi_sz1 : vpi_sz0) + YY_STATE_BUF_EXTRA_SPACE);   /* covers the current buffer; buffers below may be larger */
      VP_ASSUME(vpi_lstate >= 0 && (size_t)vpi_lstate >= (size_t)vpi_smax * sizeof(yy_state_type) && (size_t)vpi_lstate <= sizeof vp_states);
      VP_G(yy_state_buf) = vp_states; VP_G(yy_state_buf_max) = (size_t)vpi_smax; VP_G(yy_state_ptr) = vp_states;
      vp_note(vp_states, (size_t)vpi_lstate);
    }
#endif
  }
  vp_check_caps(VP_CAPS_ARGS);          /* the constructed pre-state satisfies the invariant */
  int allocs0 = vp_allocs;
#if VP_OP == 0
  yyrestart(VP_FILE VP_A1);
#elif VP_OP == 1
  vp_mkbuf(&vp_bn, vp_cn, vpi_sznew, vpi_lnew);
  yy_switch_to_buffer(&vp_bn VP_A1);
#elif VP_OP == 2
  vp_mkbuf(&vp_bn, vp_cn, vpi_sznew, vpi_lnew);
  yypush_buffer_state(&vp_bn VP_A1);
#elif VP_OP == 3
  yypop_buffer_state(VP_A0);
#elif VP_OP == 4
  { yybuffer nb = yy_create_buffer(VP_FILE, vpi_sznew VP_A1);
    VP_ASSERT(nb != 0, "yy_create_buffer");
    VP_ASSERT(nb->yy_buf_size == vpi_sznew, "yy_create_buffer records the requested size");
    VP_ASSERT(vp_size_of(nb->yy_ch_buf) >= (size_t)nb->yy_buf_size + 2, "yy_create_buffer allocates the size plus the two end-of-buffer characters");
    yy_switch_to_buffer(nb VP_A1); }
#elif VP_OP == 5
  { int t = VP_LEX(); VP_ASSERT(t == 0, "empty source: end of input"); }
#elif VP_OP == 6
  yylex_destroy();
  yyrestart(VP_FILE);
#endif
  vp_check_caps(VP_CAPS_ARGS);
#ifdef VP_WITNESS
#if VP_OP == 0 || VP_OP == 5 || VP_OP == 6
  VP_ASSERT(!(vp_allocs > allocs0), "WITNESS: the call allocates");
#elif VP_OP == 3
  VP_ASSERT(!(vpi_depth == 2 && !vpi_fresh), "WITNESS: pop returns to the buffer below");
#else
  VP_ASSERT(!(!vpi_fresh && vpi_sznew > vpi_sz0 + 10), "WITNESS: a much larger buffer becomes current");
#endif
#endif
  return 0;
}
""")
    txt = '\n'.join(H)
    if cfg.api == 'nr':
        txt = txt.replace('VP_CAPS_PARAMS', 'void').replace('VP_CAPS_PROLOGUE', '').replace('VP_CAPS_ARGS', '')
    else:
        txt = txt.replace('VP_CAPS_PARAMS', 'yyscan_t vp_scanner').replace(
            'VP_CAPS_PROLOGUE', 'struct yyguts_t *yyg = (struct yyguts_t *)vp_scanner; yyscan_t yyscanner = vp_scanner; (void)yyscanner;').replace('VP_CAPS_ARGS', 'vp_scanner')
    return txt


# ---------------------------------------------------------------------------
# G2: yyinput() / yyunput() as units, from an arbitrary valid in-action state

def g2_harness(g, cfg, spec, cap, m, nops=1, witness=False):
    """White box (C skeleton, %pointer): arbitrary buffer (capacity bs <= cap,
    fill n, token [p, p+tl) set up as inside an action, status NORMAL or EOF
    pending), <= m further source bytes in symbolic chunks; then nops
    solver-chosen edits (yyinput() or yyunput(c)).  After every edit the unread
    input must be exactly the edited stream."""
    pre = ('static int vp_read(char *buf, int max_size);\n'
           '#define YY_INPUT(buf, result, max_size) do { (result) = vp_read((buf), (int)(max_size)); } while (0)')
    h = common_head(g, cfg, spec, 1)
    marker = '#include "%s"' % os.path.basename(g.cpath)
    h = h.replace(marker, pre + '\n' + marker)
    h = h.replace(ALLOC, r"""
static int vp_realloc_calls;
static int vp_fake_file;
static char vp_mem[VP_ARENA];
#ifndef REPLAY
int isatty(int fd) { return 0; }
int fileno(FILE *f) { return 0; }
#define VP_FILE ((FILE *)&vp_fake_file)
#else
#define VP_FILE stdin
#endif
void *yyalloc(VP_SIZE_T n VP_ALLOC_EXTRA) { void *p = malloc(n); VP_ASSUME(p != 0); return p; }
void *yyrealloc(void *q, VP_SIZE_T n VP_ALLOC_EXTRA) {
  VP_ASSERT(q == (void *)vp_mem, "only the character buffer is regrown");
  vp_realloc_calls++;
  VP_ASSUME(n <= VP_ARENA);            /* larger: outside the bound */
  return q;
}
void yyfree(void *p VP_ALLOC_EXTRA) { }
""")
    H = ['#define VP_CAP %d' % cap, '#define VP_ARENA %d' % (4 * (cap + m) + 8), h]
    H.append('#define VP_M %d' % m)
    H.append('#define VP_NOPS %d' % nops)
    H.append('#define VP_L %d' % (cap + m))
    H.append('#define VP_YYLINENO %d' % (1 if ('M4_MODE_YYLINENO */' in g.text) else 0))
    H.append('#define VP_INPUT() %s' % ('yyinput()' if cfg.api == 'nr' else 'yyinput(vp_scanner)'))
    if witness:
        H.append('#define VP_WITNESS 1')
    H.append(r"""
unsigned char vpi_buf[VP_CAP], vpi_src[VP_M > 0 ? VP_M : 1], vpi_chunk[VP_M + 1];
int vpi_bs, vpi_n, vpi_p, vpi_tl, vpi_status, vpi_avail, vpi_sc, vpi_ours;
int vpi_op[VP_NOPS], vpi_c[VP_NOPS];
static int vp_reads, vp_pos;
static struct yy_buffer_state vp_bs;
static yybuffer vp_stack[1];
/* model of the logical unread stream: vp_model[vp_head .. vp_end) */
static unsigned char vp_model[VP_NOPS + VP_L + 1];
static int vp_head, vp_end;

static int vp_read(char *buf, int max_size) {
  VP_ASSERT(max_size >= 1, "read request asks for at least one byte");
  VP_ASSERT(vpi_status != YY_BUFFER_EOF_PENDING, "no read after end of input was seen");
  int avail = vpi_avail - vp_pos;
  if (avail <= 0) return 0;
  VP_ASSERT(vp_reads <= VP_M, "bounded number of reads");
  int k = vpi_chunk[vp_reads <= VP_M ? vp_reads : VP_M];
  vp_reads++;
  VP_ASSUME(k >= 1 && k <= avail && k <= max_size);
  for (int i = 0; i < VP_M; i++) if (i < k) buf[i] = (char)vpi_src[vp_pos + i];
  vp_pos += k;
  return k;
}

/* the unread input of the scanner (buffer part then source part) is the model */
static void vp_check_stream(void) {
  char *cb = VP_G(yy_c_buf_p);
  int n2 = VP_G(yy_n_chars);
  int at = (int)(cb - vp_bs.yy_ch_buf);
  VP_ASSERT(vp_bs.yy_ch_buf == vp_mem, "buffer memory");
  VP_ASSERT(at >= 0 && at <= n2 && n2 <= vp_bs.yy_buf_size, "position within text within buffer");
  VP_ASSERT(vp_mem[n2] == 0 && vp_mem[n2 + 1] == 0, "end-of-buffer characters in place");
  VP_ASSERT((n2 - at) + (vpi_avail - vp_pos) == vp_end - vp_head, "no input lost or duplicated by the edit");
  for (int i = 0; i < VP_NOPS + VP_L; i++) if (i < n2 - at) {
    unsigned char have = (i == 0) ? (unsigned char)VP_G(yy_hold_char) : (unsigned char)vp_mem[at + i];
    VP_ASSERT(have == vp_model[vp_head + i], "unread buffer text is the edited stream");
  }
  for (int i = 0; i < VP_M; i++) if (i >= vp_pos && i < vpi_avail)
    VP_ASSERT(vpi_src[i] == vp_model[vp_head + (n2 - at) + (i - vp_pos)], "unread source continues the edited stream");
}

int main(void) {
  VP_DECL_SCANNER
#ifdef REPLAY
#include "vp_replay_set.inc"
#else
  for (int i = 0; i < VP_CAP; i++) vpi_buf[i] = nondet_uchar();
  for (int i = 0; i < VP_M; i++) vpi_src[i] = nondet_uchar();
  for (int i = 0; i < VP_M + 1; i++) vpi_chunk[i] = nondet_uchar();
  for (int i = 0; i < VP_NOPS; i++) { vpi_op[i] = nondet_int(); vpi_c[i] = nondet_int(); }
  vpi_bs = nondet_int(); vpi_n = nondet_int(); vpi_p = nondet_int(); vpi_tl = nondet_int();
  vpi_status = nondet_int(); vpi_avail = nondet_int(); vpi_sc = nondet_int(); vpi_ours = nondet_int();
#endif
  VP_ASSUME(vpi_bs >= 1 && vpi_bs <= VP_CAP);
  VP_ASSUME(vpi_n >= 0 && vpi_n <= vpi_bs);
  VP_ASSUME(vpi_p >= 0 && vpi_p <= vpi_n);
  VP_ASSUME(vpi_tl >= 0 && vpi_tl <= VP_CAP && vpi_p + vpi_tl <= vpi_n);
  VP_ASSUME(vpi_status == YY_BUFFER_NORMAL || vpi_status == YY_BUFFER_EOF_PENDING);
  VP_ASSUME(vpi_avail >= 0 && vpi_avail <= VP_M);
  VP_ASSUME(vpi_status != YY_BUFFER_EOF_PENDING || vpi_avail == 0);
  VP_ASSUME(vpi_sc >= 0 && vpi_sc < VP_NSC);
  VP_ASSUME(vpi_ours == 0 || vpi_ours == 1);
  VP_ASSUME(vpi_ours == 1 || vpi_avail == 0);      /* a user-owned buffer (yy_scan_buffer) has no source behind it */
  for (int i = 0; i < VP_NOPS; i++) { VP_ASSUME(vpi_op[i] == 0 || vpi_op[i] == 1); VP_ASSUME(vpi_c[i] >= 0 && vpi_c[i] <= 255); }
  vp_head = VP_NOPS; vp_end = VP_NOPS;
  for (int i = 0; i < VP_CAP; i++) if (i >= vpi_p + vpi_tl && i < vpi_n) vp_model[vp_end++] = vpi_buf[i];
  for (int i = 0; i < VP_M; i++) if (i < vpi_avail) vp_model[vp_end++] = vpi_src[i];
  VP_INIT_SCANNER();
  for (int i = 0; i < VP_CAP; i++) if (i < vpi_n) vp_mem[i] = (char)vpi_buf[i];
  vp_mem[vpi_n] = 0; vp_mem[vpi_n + 1] = 0;
  vp_bs.yy_input_file = VP_FILE;
  vp_bs.yy_ch_buf = vp_mem; vp_bs.yy_buf_pos = vp_mem + vpi_p;
  vp_bs.yy_buf_size = vpi_bs; vp_bs.yy_n_chars = vpi_n;
  vp_bs.yy_is_our_buffer = vpi_ours; vp_bs.yy_fill_buffer = vpi_ours; vp_bs.yy_buffer_status = vpi_status;
  vp_bs.yyatbol = 0; vp_bs.yy_bs_lineno = 1;
  vp_stack[0] = &vp_bs;
  VP_G(yy_buffer_stack) = vp_stack; VP_G(yy_buffer_stack_top) = 0; VP_G(yy_buffer_stack_max) = 1;
  VP_G(yy_n_chars) = vpi_n; VP_G(yy_init) = 1;
  yyin = VP_FILE; yyout = VP_FILE;
  VP_BEGIN(vpi_sc);
  /* as inside an action: token [p, p+tl), its end overwritten by the terminator */
  VP_TEXTPTR = vp_mem + vpi_p;
  VP_G(yy_c_buf_p) = vp_mem + vpi_p + vpi_tl;
  VP_G(yy_hold_char) = vp_mem[vpi_p + vpi_tl];
  vp_mem[vpi_p + vpi_tl] = 0;
  int line = 1, inputs = 0, unputs = 0, refills = 0;
  vp_expect_fatal = 0;
  for (int k = 0; k < VP_NOPS; k++) {
    int reads0 = vp_reads;
    if (vpi_op[k] == 0) {
      /* yyinput(): consumes and returns the next character; end-of-input value only when none remains */
      int r = VP_INPUT();
      if (vp_head == vp_end) {
        VP_ASSERT(r == 0, "yyinput() at the end of the input gives its end-of-input value");
        VP_ASSERT(VP_START() == vpi_sc, "start condition unchanged");
        return 0;
      }
      VP_ASSERT(r == vp_model[vp_head], "yyinput() returns the next character of the input");
      if (r == '\n') line++;
      vp_head++; inputs++;
#if VP_HAS_BOL
      VP_ASSERT((VP_ATBOL() != 0) == (r == '\n'), "after yyinput() the scanner is at beginning of line exactly if it consumed a newline");
#endif
    } else {
      /* yyunput(c): c becomes the next character read.  Push-back room: the
       * skeleton needs two free bytes in front of the scan position after
       * moving the text to the end of the buffer; only then may it stop */
      int at = (int)(VP_G(yy_c_buf_p) - vp_bs.yy_ch_buf);
      vp_expect_fatal = (at < 2 && at + (vp_bs.yy_buf_size - VP_G(yy_n_chars)) < 2);
      yyunput(vpi_c[k]);
      vp_expect_fatal = 0;
      VP_ASSERT(vp_reads == reads0, "yyunput() does not read input");
      vp_model[--vp_head] = (unsigned char)vpi_c[k];
      if (vpi_c[k] == '\n') line--;
      unputs++;
    }
    if (vp_reads > reads0) refills++;
    vp_check_stream();
#if VP_YYLINENO
    VP_ASSERT(VP_LINENO() == line, "yylineno follows newlines read by yyinput() and pushed back by yyunput()");
#endif
    VP_ASSERT(VP_START() == vpi_sc, "start condition unchanged");
  }
#ifdef VP_WITNESS
  VP_ASSERT(!(refills >= 1 && inputs >= 1), "WITNESS: yyinput() across a refill");
#endif
  return 0;
}
""")
    return '\n'.join(H)


# ---------------------------------------------------------------------------
# E3w: one yylex() step from an arbitrary valid buffer state (inductive step)

def e3w_harness(g, cfg, spec, bs, m, maxnul=1, witness=False, interactive_check=False, more=False):
    pre = ('static int vp_read(char *buf, int max_size);\n'
           '#define YY_INPUT(buf, result, max_size) do { (result) = vp_read((buf), (int)(max_size)); } while (0)')
    nmax = bs + m
    h = common_head(g, cfg, spec, nmax)
    marker = '#include "%s"' % os.path.basename(g.cpath)
    h = h.replace(marker, pre + '\n' + marker)
    h = h.replace(ALLOC, r'''
static int vp_realloc_calls;
static int vp_fake_file;
static char vp_mem[VP_ARENA];
#ifndef REPLAY
/* the input file is never touched by the scanner except through YY_INPUT
 * (the harness routine); yy_init_buffer() asks whether it is a terminal */
int isatty(int fd) { return 0; }
int fileno(FILE *f) { return 0; }
#define VP_FILE ((FILE *)&vp_fake_file)
#else
#define VP_FILE stdin
#endif
void *yyalloc(VP_SIZE_T n VP_ALLOC_EXTRA) { void *p = malloc(n); VP_ASSUME(p != 0); return p; }
void *yyrealloc(void *q, VP_SIZE_T n VP_ALLOC_EXTRA) {
  VP_ASSERT(q == (void *)vp_mem, "only the character buffer is regrown");
  vp_realloc_calls++;
  VP_ASSUME(n <= VP_ARENA);            /* larger: outside the bound */
  return q;
}
void yyfree(void *p VP_ALLOC_EXTRA) { }
''')
    H = ['#define VP_BS %d' % bs, '#define VP_ARENA %d' % (4 * (bs + m) + 8), h]
    H.append(action_table(spec))
    H.append(eof_table(spec))
    H.append('#define VP_M %d' % m)
    H.append('#define VP_L %d' % nmax)
    H.append('#define VP_MAXNUL %d' % maxnul)
    H.append('#define VP_7BIT %d' % (1 if cfg.seven_bit or spec.csize == 128 else 0))
    H.append('#define VP_ARRAY %d' % (1 if is_array(g) else 0))
    H.append('#define VP_INTERACTIVE_CHECK %d' % (1 if interactive_check else 0))
    H.append('#define VP_MORE %d' % (1 if more else 0))
    if witness:
        H.append('#define VP_WITNESS 1')
    H.append(r'''
unsigned char vpi_buf[VP_BS], vpi_src[VP_M > 0 ? VP_M : 1], vpi_chunk[VP_M + 1];
int vpi_n, vpi_p, vpi_status, vpi_avail, vpi_sc, vpi_bol, vpi_tl;
int vp_more_req;                 /* the actions call yymore() only if this is set (never): flex emits the yymore machinery */
static int vp_reads, vp_pos, vp_eofs, vp_calls, vp_last_call_pos;
static struct yy_buffer_state vp_bs;
static yybuffer vp_stack[1];
static unsigned char vp_stream[VP_L > 0 ? VP_L : 1];

static int vp_read(char *buf, int max_size) {
  VP_ASSERT(max_size >= 1, "read request asks for at least one byte");
  VP_ASSERT(vpi_status != YY_BUFFER_EOF_PENDING, "no read after end of input was seen");
  int avail = vpi_avail - vp_pos;
  vp_calls++; vp_last_call_pos = vp_pos;        /* what the scanner had been given when it issued this request */
  if (avail <= 0) { vp_eofs++; return 0; }
  VP_ASSERT(vp_reads <= VP_M, "bounded number of reads");
  int k = vpi_chunk[vp_reads <= VP_M ? vp_reads : VP_M];
  vp_reads++;
  VP_ASSUME(k >= 1 && k <= avail && k <= max_size);
  for (int i = 0; i < VP_M; i++) if (i < k) buf[i] = (char)vpi_src[vp_pos + i];
  vp_pos += k;
  return k;
}

int main(void) {
  VP_DECL_SCANNER
#ifdef REPLAY
#include "vp_replay_set.inc"
#else
  for (int i = 0; i < VP_BS; i++) vpi_buf[i] = nondet_uchar();
  for (int i = 0; i < VP_M; i++) vpi_src[i] = nondet_uchar();
  for (int i = 0; i < VP_M + 1; i++) vpi_chunk[i] = nondet_uchar();
  vpi_n = nondet_int(); vpi_p = nondet_int(); vpi_status = nondet_int(); vpi_avail = nondet_int();
  vpi_sc = nondet_int(); vpi_bol = nondet_int(); vpi_tl = nondet_int();
#endif
  VP_ASSUME(vpi_n >= 0 && vpi_n <= VP_BS);
  VP_ASSUME(vpi_p >= 0 && vpi_p <= vpi_n);
#if VP_MORE
  /* the previous action called yymore(): its token [p-tl, p) is still in the buffer */
  VP_ASSUME(vpi_tl >= 1 && vpi_tl <= vpi_p);
#else
  VP_ASSUME(vpi_tl == 0);
#endif
  VP_ASSUME(vpi_status == YY_BUFFER_NORMAL || vpi_status == YY_BUFFER_EOF_PENDING || vpi_status == YY_BUFFER_NEW);
  VP_ASSUME(vpi_status != YY_BUFFER_NEW || vpi_n == 0);            /* a flushed buffer is empty */
  VP_ASSUME(vpi_avail >= 0 && vpi_avail <= VP_M);
  VP_ASSUME(vpi_status != YY_BUFFER_EOF_PENDING || vpi_avail == 0); /* source already reported end of input */
  VP_ASSUME(vpi_sc >= 0 && vpi_sc < VP_NSC);
  VP_ASSUME(vpi_bol == 0 || vpi_bol == 1);
  /* logical stream: unread buffer text followed by the unread source */
  int len = 0, nuls = 0;
  for (int i = 0; i < VP_BS; i++) if (i >= vpi_p && i < vpi_n) vp_stream[len++] = vpi_buf[i];
  for (int i = 0; i < VP_M; i++) if (i < vpi_avail) vp_stream[len++] = vpi_src[i];
  for (int i = 0; i < VP_L; i++) if (i < len) {
    if (vp_stream[i] == 0) nuls++;
#if VP_7BIT
    VP_ASSUME(vp_stream[i] < 128);
#endif
  }
  VP_ASSUME(nuls <= VP_MAXNUL);
  VP_INIT_SCANNER();
  for (int i = 0; i < VP_BS; i++) if (i < vpi_n) vp_mem[i] = (char)vpi_buf[i];
  vp_mem[vpi_n] = 0; vp_mem[vpi_n + 1] = 0;
  vp_bs.yy_input_file = VP_FILE;
  vp_bs.yy_ch_buf = vp_mem; vp_bs.yy_buf_pos = vp_mem + vpi_p;
  vp_bs.yy_buf_size = VP_BS; vp_bs.yy_n_chars = vpi_n;
  vp_bs.yy_is_our_buffer = 1; vp_bs.yy_fill_buffer = 1; vp_bs.yy_buffer_status = vpi_status;
  vp_bs.yyatbol = vpi_bol;
  vp_stack[0] = &vp_bs;
  VP_G(yy_buffer_stack) = vp_stack; VP_G(yy_buffer_stack_top) = 0; VP_G(yy_buffer_stack_max) = 1;
  VP_G(yy_n_chars) = vpi_n; VP_G(yy_init) = 1;
  yyin = VP_FILE; yyout = VP_FILE;
  VP_BEGIN(vpi_sc);
  VP_TEXTPTR = vp_mem + vpi_p;
  VP_G(yy_c_buf_p) = vp_mem + vpi_p;
  VP_G(yy_hold_char) = vp_mem[vpi_p];
#if VP_MORE
#if VP_ARRAY
  for (int i = 0; i < VP_BS; i++) if (i < vpi_tl) yytext[i] = (char)vpi_buf[vpi_p - vpi_tl + i];
  yytext[vpi_tl] = 0; yyleng = vpi_tl;
  VP_G(yy_more_offset) = vpi_tl;                 /* what yymore() does in a %array scanner */
#else
  VP_TEXTPTR = vp_mem + vpi_p - vpi_tl;
  VP_G(yy_more_flag) = 1;                        /* what yymore() does in a %pointer scanner */
#endif
#endif

  int tot = 0;
  int rr = vp_first_token(vp_stream, len, vpi_sc, vpi_bol, &tot);
  vp_expect_fatal = 0;
  int tk = VP_LEX();
  if (len == 0) {
    VP_ASSERT(tk == vp_eofret[vpi_sc], "end of input: EOF action of the current start condition");
    VP_ASSERT(VP_START() == vpi_sc, "end of input does not change the start condition");
    if (vpi_status != YY_BUFFER_EOF_PENDING || vpi_n == 0)
      VP_ASSERT(vp_bs.yyatbol == 1 && vp_bs.yy_buffer_status == YY_BUFFER_NEW, "after end of input the buffer is ready for a new source, at beginning of line");
    return 0;
  }
#if VP_MORE
  VP_ASSERT(VP_LENG >= vpi_tl, "yymore(): yyleng covers the previous text");
  for (int i = 0; i < VP_BS; i++) if (i < vpi_tl) VP_ASSERT((unsigned char)VP_TEXT[i] == vpi_buf[vpi_p - vpi_tl + i], "yymore(): yytext begins with the previous token's text");
#endif
  const char *tx = VP_TEXT + vpi_tl; int tl = VP_LENG - vpi_tl;
  VP_ASSERT(tk == vp_actid[rr], "token rule independent of buffer state and read schedule");
  if (vp_has_trail(rr)) VP_ASSERT(vp_split_ok(rr, vp_stream, tl, tot), "trailing context split");
  else VP_ASSERT(tl == tot, "token length independent of buffer state and read schedule");
  VP_ASSERT(tl >= 1 && tl <= len, "token within the stream");
  for (int i = 0; i < VP_L; i++) if (i < tl) VP_ASSERT((unsigned char)tx[i] == vp_stream[i], "token text");
  VP_ASSERT(tx[tl] == 0, "yytext terminated");
  /* representation invariant after the step: the unread text in the buffer
   * followed by the unread source is exactly the rest of the stream */
  char *cb = VP_G(yy_c_buf_p);
  int n2 = VP_G(yy_n_chars);
  int at = (int)(cb - vp_bs.yy_ch_buf);
  VP_ASSERT(vp_bs.yy_ch_buf == vp_mem, "buffer memory");
  VP_ASSERT(at >= 0 && at <= n2 && n2 <= vp_bs.yy_buf_size, "position within text within buffer");
  VP_ASSERT(vp_mem[n2] == 0 && vp_mem[n2 + 1] == 0, "end-of-buffer characters in place");
  VP_ASSERT((n2 - at) + (vpi_avail - vp_pos) == len - tl, "no input lost or duplicated");
  for (int i = 0; i < VP_L; i++) if (i < n2 - at) {
    unsigned char have = (i == 0) ? (unsigned char)VP_G(yy_hold_char) : (unsigned char)vp_mem[at + i];
    VP_ASSERT(have == vp_stream[tl + i], "unread buffer text is the continuation of the stream");
  }
#if VP_INTERACTIVE_CHECK
  /* interactive scanner: no request beyond the first point at which no longer match is possible */
  {
    vp_state s; vp_init(&s); int need = 0, stop = 0;
    for (int i = 0; i < VP_L; i++) if (i < len && !stop) {
      vp_step(&s, i == 0, vp_stream[i], vpi_sc, vpi_bol);
      need = i + 1;
      if (!vp_has_out(&s)) stop = 1;
    }
    int inbuf = vpi_n - vpi_p;
    /* a request is justified iff the scanner had, when it issued it, fewer bytes than the decisive point needs;
     * how many bytes the input routine then hands over (up to max_size) is not the scanner's doing */
    VP_ASSERT(stop == 0 || vp_calls == 0 || inbuf + vp_last_call_pos < need, "interactive scanner does not read beyond the point where no longer match is possible");
  }
#endif
#ifdef VP_WITNESS
  VP_ASSERT(!(vp_reads >= 1 && vpi_p < vpi_n && tl > vpi_n - vpi_p), "WITNESS: token straddles a refill");
#endif
  return 0;
}
''')
    return '\n'.join(H)


# ---------------------------------------------------------------------------
# E4: histories -- actions that call the documented stream-editing API

def gen_history_scanner(tree, workdir, spec, cfg, mode, extra_options=(), base='scanner'):
    """All rules share one action site (the documented '|' action) whose body
    is the VP_ACT macro; the macro text is placed in a section-1 code block so
    that flex sees the REJECT / yymore() it contains."""
    sites = mode.endswith('_sites')      # one action site per rule (trailing context allowed)
    assert (sites or not spec.has_trailing) and not spec.eofs
    if mode == 'reject_sites':
        body = 'if (vp_visit(yy_act, yytext, yyleng)) { REJECT; } return yy_act;'
    elif mode == 'yyreject_sites':
        body = 'if (vp_visit(yy_act, yytext, yyleng)) { yyreject(); } return yy_act;'
    elif mode == 'reject':
        body = 'if (vp_visit(yy_act, yytext, yyleng)) { REJECT; } return yy_act;'
    elif mode == 'yyreject':
        body = 'if (vp_visit(yy_act, yytext, yyleng)) { yyreject(); } return yy_act;'
    elif mode == 'less':
        body = 'if (vp_visit(yy_act, yytext, yyleng)) { yyless(vp_arg); vp_after_less(yytext, yyleng); } return yy_act;'
    elif mode == 'unput':
        body = 'if (vp_visit(yy_act, yytext, yyleng)) { yyunput(vp_arg); } return yy_act;'
    elif mode == 'input':
        body = 'if (vp_visit(yy_act, yytext, yyleng)) { vp_inp = %s; vp_after_input(); } return yy_act;' % (
            'yyinput()' if cfg.api == 'nr' else 'yyinput(yyscanner)')
    elif mode == 'more':
        body = 'if (vp_visit(yy_act, yytext, yyleng)) { yymore(); } return yy_act;'
    else:
        raise ValueError(mode)
    prologue = ('int vp_visit(int, const char *, int); void vp_after_less(const char *, int); void vp_after_input(void);\n'
                'extern int vp_arg, vp_inp;')
    last = spec.rules[-1].num

    def action(r):
        return '{ %s }' % body

    saved = [r.fallthrough for r in spec.rules]
    try:
        for i, r in enumerate(spec.rules):
            r.fallthrough = (r.num != last)
            if sites:
                # a rule with trailing context keeps its own action site (with a preceding '|' flex makes
                # its trailing context variable); so does the rule before it; the others share one site.
                # Few sites matter: every textual REJECT is one more back edge into find_rule.
                nxt = spec.rules[i + 1] if i + 1 < len(spec.rules) else None
                if r.trail is not None or (nxt is not None and nxt.trail is not None):
                    r.fallthrough = False
        g = gen_scanner(tree, workdir, spec, cfg, action=action, extra_options=extra_options,
                        prologue=prologue, base=base)
    finally:
        for r, f in zip(spec.rules, saved):
            r.fallthrough = f
    g.mode = mode
    return g


def e4_reject_harness(g, cfg, spec, n, maxnul=1, witness=False, rej_k=None, interior=False):
    """interior: one more symbolic byte follows the N bytes and the input is restricted to those on which
    the match attempt jams at or before that byte, so the end-of-buffer code is never entered (its back
    edges get unwind bound 1 and the unwinding assertions prove they are not taken).  Cheaper by an order
    of magnitude; the unrestricted variant keeps covering tokens that run into the end of the buffer."""
    tail = 1 if interior else 0
    H = [common_head(g, cfg, spec, max(n, 1) + tail)]
    H.append('#define VP_TAIL %d' % tail)
    if rej_k is not None:
        H.append('#define VP_REJ_K %d' % rej_k)
    H.append('#define VP_N %d' % n)
    H.append('#define VP_MAXNUL %d' % maxnul)
    H.append('#define VP_MAXVIS %d' % (n * (len(spec.rules) + 1) + 2))
    if witness:
        H.append('#define VP_WITNESS 1')
    H.append(r'''
unsigned char vpi_in[VP_N + VP_TAIL > 0 ? VP_N + VP_TAIL : 1];
unsigned char vpi_rej[VP_MAXVIS];
int vpi_sc, vpi_bol;
int vp_arg, vp_inp;
static char vp_buf[VP_N + VP_TAIL + 2];
static int vp_nvis;
/* reference: all (length, rule) matches at the start of the input, longest
 * first, rule order within a length (manual, REJECT) */
static int vp_exp_rule[VP_MAXVIS], vp_exp_len[VP_MAXVIS], vp_nexp;
void vp_after_less(const char *t, int l) {}
void vp_after_input(void) {}

int vp_visit(int act, const char *text, int leng) {
  int v = vp_nvis++;
  VP_ASSERT(v < vp_nexp, "REJECT visits only matches that exist");
  VP_ASSERT(act == vp_exp_rule[v], "REJECT proceeds to the next-best rule in the documented order");
  /* for r/s the action sees a head of a valid split of the alternative match (p == total for plain rules) */
  VP_ASSERT(leng >= 0 && leng <= vp_exp_len[v] && vp_split_ok(act, vpi_in, leng, vp_exp_len[v]), "yyleng of the alternative match");
  for (int i = 0; i < VP_N; i++) if (i < leng) VP_ASSERT((unsigned char)text[i] == vpi_in[i], "yytext of the alternative match");
  VP_ASSERT(text[leng] == 0, "yytext terminated");
#ifdef VP_REJ_K
  return v < VP_REJ_K;          /* the first VP_REJ_K visits reject */
#else
  return vpi_rej[v < VP_MAXVIS ? v : 0] != 0;
#endif
}

int main(void) {
  VP_DECL_SCANNER
#ifdef REPLAY
#include "vp_replay_set.inc"
#else
  for (int i = 0; i < VP_N + VP_TAIL; i++) vpi_in[i] = nondet_uchar();
  for (int i = 0; i < VP_MAXVIS; i++) vpi_rej[i] = nondet_uchar();
  vpi_sc = nondet_int(); vpi_bol = nondet_int();
#endif
  VP_ASSUME(vpi_sc >= 0 && vpi_sc < VP_NSC);
  VP_ASSUME(vpi_bol == 0 || vpi_bol == 1);
  int nuls = 0;
  for (int i = 0; i < VP_N + VP_TAIL; i++) { if (vpi_in[i] == 0) nuls++; vp_buf[i] = (char)vpi_in[i]; }
  VP_ASSUME(nuls <= VP_MAXNUL);
  for (int i = 0; i < VP_MAXVIS; i++) VP_ASSUME(vpi_rej[i] <= 1);
#ifdef VP_REJ_K
  for (int i = 0; i < VP_MAXVIS; i++) VP_ASSUME(vpi_rej[i] == (i < VP_REJ_K));
#endif
  vp_buf[VP_N + VP_TAIL] = 0; vp_buf[VP_N + VP_TAIL + 1] = 0;
  /* per prefix length, the set of matching rules */
  uint64_t acc[VP_N + 1];
  { vp_state s; vp_init(&s); acc[0] = 0;
    for (int i = 0; i < VP_N; i++) { vp_step(&s, i == 0, vpi_in[i], vpi_sc, vpi_bol); acc[i + 1] = vp_accset(&s); }
#if VP_TAIL
    /* the match attempt jams at the byte behind the N bytes at the latest: the end of the buffer is not reached */
    vp_step(&s, VP_N == 0, vpi_in[VP_N], vpi_sc, vpi_bol);
    VP_ASSUME(!vp_alive(&s));
#endif
  }
  vp_nexp = 0;
  for (int L = VP_N; L >= 1; L--)
    for (int r = 1; r <= VP_NRULES; r++)
      if (acc[L] >> r & 1) { vp_exp_rule[vp_nexp] = r; vp_exp_len[vp_nexp] = L; vp_nexp++; }
  /* visits end at the first action that does not reject; the default rule never rejects */
  int last = 0;
  for (int v = 0; v < VP_MAXVIS; v++) if (v < vp_nexp) { last = v; if (vp_exp_rule[v] == VP_DEFAULT_RULE || !vpi_rej[v]) break; }
  vp_expect_fatal = 0;
  VP_INIT_SCANNER();
  yybuffer b = VP_SCAN_BUFFER(vp_buf, VP_N + VP_TAIL + 2);
  VP_ASSERT(b != 0, "yy_scan_buffer");
  VP_BEGIN(vpi_sc); VP_SETBOL(vpi_bol);
  int t = VP_LEX();
  if (VP_N + VP_TAIL == 0) { VP_ASSERT(t == 0, "end of input"); return 0; }
  VP_ASSERT(t == vp_exp_rule[last], "token finally returned is the first match whose action did not reject");
  VP_ASSERT(VP_LENG >= 0 && VP_LENG <= vp_exp_len[last] && vp_split_ok(t, vpi_in, VP_LENG, vp_exp_len[last]), "length of the token finally returned");
  VP_ASSERT(vp_nvis == (vp_exp_rule[last] == VP_DEFAULT_RULE ? last : last + 1), "every alternative before it was visited exactly once, in order");
  VP_ASSERT(VP_G(yy_c_buf_p) == vp_buf + VP_LENG, "scan position is behind the token");
#ifdef VP_WITNESS
  VP_ASSERT(!(vp_nvis >= 2), "WITNESS: at least two alternatives visited");
#endif
  return 0;
}
''')
    return '\n'.join(H)


def e4_edit_harness(g, cfg, spec, n, mode='less', maxnul=0, witness=False):
    """One yylex() step whose action applies a stream edit chosen by the
    solver (yyless(k) / yyunput(c) / yyinput(), each optional); afterwards the
    scanner's unread input must be exactly the edited stream (the invariant
    under which the first-token obligations apply to the next call).
    mode 'more': two steps, yymore() in the first action."""
    H = [common_head(g, cfg, spec, max(n, 1) + 1)]
    H.append('#define VP_N %d' % n)
    H.append('#define VP_MAXNUL %d' % maxnul)
    H.append('#define VP_MODE_%s 1' % mode.upper())
    H.append('#define VP_YYLINENO %d' % (1 if ('M4_MODE_YYLINENO */' in g.text) else 0))
    H.append('#define VP_ARRAY %d' % (1 if is_array(g) else 0))
    if witness:
        H.append('#define VP_WITNESS 1')
    H.append(r"""
unsigned char vpi_in[VP_N > 0 ? VP_N : 1];
int vpi_op, vpi_arg, vpi_sc;
int vp_arg, vp_inp;
static char vp_buf[VP_N + 2];
static int vp_step_no, vp_tok_rule[2], vp_tok_len[2];
static unsigned char vp_tok_text[2][VP_N + 2];
static unsigned char vp_s2[VP_N + 2];     /* the edited stream */

int vp_visit(int act, const char *text, int leng) {
  int k = vp_step_no;
  VP_ASSERT(k < 2, "one action per yylex call");
  vp_tok_rule[k] = act; vp_tok_len[k] = leng;
  for (int i = 0; i < VP_N + 1; i++) if (i <= leng) vp_tok_text[k][i] = (unsigned char)text[i];
  vp_step_no++;
  if (k == 0) { vp_arg = vpi_arg; return vpi_op; }
  return 0;
}
void vp_after_less(const char *t, int l) {
  VP_ASSERT(l == vpi_arg, "yyless(n) leaves yyleng == n");
  for (int i = 0; i < VP_N; i++) if (i < l) VP_ASSERT((unsigned char)t[i] == vpi_in[i], "yyless(n) keeps the first n characters in yytext");
  VP_ASSERT(t[l] == 0, "yytext terminated after yyless");
}
void vp_after_input(void) {}

int main(void) {
  VP_DECL_SCANNER
#ifdef REPLAY
#include "vp_replay_set.inc"
#else
  for (int i = 0; i < VP_N; i++) vpi_in[i] = nondet_uchar();
  vpi_op = nondet_int(); vpi_arg = nondet_int(); vpi_sc = nondet_int();
#endif
  VP_ASSUME(vpi_sc >= 0 && vpi_sc < VP_NSC);
  VP_ASSUME(vpi_op == 0 || vpi_op == 1);
  int nuls = 0;
  for (int i = 0; i < VP_N; i++) { if (vpi_in[i] == 0) nuls++; vp_buf[i] = (char)vpi_in[i]; }
  VP_ASSUME(nuls <= VP_MAXNUL);
  vp_buf[VP_N] = 0; vp_buf[VP_N + 1] = 0;
  int tot1 = 0;
  int r1 = vp_first_token(vpi_in, VP_N, vpi_sc, 1, &tot1);
  VP_ASSUME(VP_N > 0 && r1 != VP_DEFAULT_RULE);   /* the first token runs the shared action */
  int len1 = tot1, n2 = 0, nl_delta = 0;
#if defined(VP_MODE_LESS)
  if (vpi_op) {                            /* yyless(k): first k characters kept, rest scanned again */
    VP_ASSUME(vpi_arg >= 0 && vpi_arg <= len1);
    for (int i = 0; i < VP_N; i++) if (i >= vpi_arg) vp_s2[n2++] = vpi_in[i];
    for (int i = 0; i < VP_N; i++) if (i >= vpi_arg && i < len1 && vpi_in[i] == '\n') nl_delta--;
  } else
#elif defined(VP_MODE_UNPUT)
  if (vpi_op) {                            /* yyunput(c): c is the next character read */
    VP_ASSUME(vpi_arg >= 0 && vpi_arg <= 255);
    VP_ASSUME(len1 >= 2);                  /* within the push-back room of a full user-owned buffer */
    vp_s2[n2++] = (unsigned char)vpi_arg;
    for (int i = 0; i < VP_N; i++) if (i >= len1) vp_s2[n2++] = vpi_in[i];
    if (vpi_arg == '\n') nl_delta--;
  } else
#elif defined(VP_MODE_INPUT)
  if (vpi_op) {                            /* yyinput(): consumes and returns the next character */
    for (int i = 0; i < VP_N; i++) if (i > len1) vp_s2[n2++] = vpi_in[i];
    if (len1 < VP_N && vpi_in[len1] == '\n') nl_delta++;
  } else
#endif
  {
    for (int i = 0; i < VP_N; i++) if (i >= len1) vp_s2[n2++] = vpi_in[i];
  }
  vp_expect_fatal = 0;
  VP_INIT_SCANNER();
  yybuffer b = VP_SCAN_BUFFER(vp_buf, VP_N + 2);
  VP_ASSERT(b != 0, "yy_scan_buffer");
  VP_BEGIN(vpi_sc);
  int t1 = VP_LEX();
  VP_ASSERT(t1 == r1 && vp_tok_rule[0] == r1 && vp_tok_len[0] == len1, "first token");
#if defined(VP_MODE_INPUT)
  if (vpi_op) {
    int want = (len1 < VP_N) ? vpi_in[len1] : 0;   /* end-of-input value only when no input remains */
    VP_ASSERT(vp_inp == want, "yyinput() returns the next character of the input, its end-of-input value only at the end");
  }
#endif
#if VP_YYLINENO
  { int nl = 0; for (int i = 0; i < VP_N; i++) if (i < len1 && vpi_in[i] == '\n') nl++;
    VP_ASSERT(VP_LINENO() == 1 + nl + nl_delta, "yylineno after yyless/yyunput/yyinput"); }
#endif
#if !defined(VP_MODE_MORE)
  /* invariant: the unread input is exactly the edited stream */
  {
    yybuffer cb = VP_CURBUF();
    char *base = cb->yy_ch_buf, *cp = VP_G(yy_c_buf_p);
    int nn = VP_G(yy_n_chars), at = (int)(cp - base);
    int at_end = (vpi_op && len1 >= VP_N);         /* yyinput() at end of input resets the buffer */
#if defined(VP_MODE_INPUT)
    if (at_end) { VP_ASSERT(n2 == 0, "nothing left"); }
    else
#endif
    {
      VP_ASSERT(at >= 0 && at <= nn, "scan position within the buffered text");
      VP_ASSERT(nn - at == n2, "no input lost or duplicated by the edit");
      for (int i = 0; i < VP_N + 1; i++) if (i < n2) {
        unsigned char have = (i == 0) ? (unsigned char)VP_G(yy_hold_char) : (unsigned char)base[at + i];
        VP_ASSERT(have == vp_s2[i], "unread input is the edited stream");
      }
      VP_ASSERT(base[nn] == 0 && base[nn + 1] == 0, "end-of-buffer characters in place");
    }
  }
#else
  {
    int tot2 = 0;
    int r2 = vp_first_token(vp_s2, n2, vpi_sc, 0, &tot2);
    int t2 = VP_LEX();
    if (n2 == 0) { VP_ASSERT(t2 == 0, "end of input"); return 0; }
    if (r2 == VP_DEFAULT_RULE) { VP_ASSERT(t2 == VP_DEFAULT_RULE, "second token falls to the default rule"); }
    else {
      VP_ASSERT(t2 == r2 && vp_tok_rule[1] == r2, "second token is the next token of the input");
      if (vpi_op) {
        VP_ASSERT(vp_tok_len[1] == len1 + tot2, "yymore(): yyleng covers both tokens");
        for (int i = 0; i < VP_N; i++) if (i < len1 + tot2) VP_ASSERT(vp_tok_text[1][i] == vpi_in[i], "yymore(): yytext is the previous text followed by the new token");
      } else {
        VP_ASSERT(vp_tok_len[1] == tot2, "length of the second token");
        for (int i = 0; i < VP_N + 1; i++) if (i < tot2) VP_ASSERT(vp_tok_text[1][i] == vp_s2[i], "text of the second token");
      }
    }
  }
#endif
#ifdef VP_WITNESS
  VP_ASSERT(!(vpi_op != 0 && n2 > 0), "WITNESS: an edit with input left");
#endif
  return 0;
}
""")
    return '\n'.join(H)


# ---------------------------------------------------------------------------
# E4b: buffer API histories around one yylex() step

LEDGER_ALLOC = r'''
/* exact-size blocks with a counting ledger (C13); invalid or double frees are
 * caught by cbmc's own free()/realloc() preconditions in the safety jobs */
static int vp_live, vp_alloc_no, vp_failed, vp_bad_free;
int vpi_fail_at = -1;           /* C14: this allocation request fails */
void *yyalloc(VP_SIZE_T n VP_ALLOC_EXTRA) {
  if (vp_alloc_no++ == vpi_fail_at) { vp_failed = 1; return 0; }
  void *p = malloc(n); VP_ASSUME(p != 0); vp_live++; return p;
}
void *yyrealloc(void *q, VP_SIZE_T n VP_ALLOC_EXTRA) {
  if (vp_alloc_no++ == vpi_fail_at) { vp_failed = 1; return 0; }
  void *p = realloc(q, n); VP_ASSUME(p != 0); if (q == 0) vp_live++; return p;
}
void yyfree(void *p VP_ALLOC_EXTRA) {
  if (p == 0) return;
  vp_live--; free(p);
}
static int vp_live_count(void) { return vp_live; }
'''


def api_harness(g, cfg, spec, n, witness=False, alloc_fail=False, second_lex=False, op=0, fail_at=None):
    """Two user buffers (yy_scan_buffer in place / yy_scan_bytes copy), one
    yylex() step on the first, then a buffer operation chosen by the solver;
    the first buffer's unread input must be untouched and resumable."""
    h = common_head(g, cfg, spec, max(n, 1))
    h = h.replace(ALLOC, LEDGER_ALLOC)
    H = [h, action_table(spec), eof_table(spec)]
    H.append('#define VP_N %d' % n)
    H.append('#define VP_ALLOC_FAIL %d' % (1 if alloc_fail else 0))
    H.append('#define VP_SECOND_LEX %d' % (1 if second_lex else 0))
    H.append('#define VP_REENTRANT %d' % (1 if cfg.api != 'nr' else 0))
    H.append('#define VP_OP %d' % op)
    if fail_at is not None:
        H.append('#define VP_FAIL_AT %d' % fail_at)
    if witness and alloc_fail:
        H = ['#define VP_WITNESS_FATAL 1'] + H
    if witness:
        H.append('#define VP_WITNESS 1')
    H.append(r'''
unsigned char vpi_a[VP_N > 0 ? VP_N : 1], vpi_b[VP_N > 0 ? VP_N : 1];
int vpi_op, vpi_sc, vpi_tail0, vpi_tail1, vpi_stale;
static char vp_bufa[VP_N + 2], vp_bufb[VP_N + 2];

/* the current buffer's unread input must be exactly s[0..k) */
static void vp_unread_is(const unsigned char *s, int k VP_ALLOC_EXTRA2) {
  yybuffer cb = VP_CURBUF();
  VP_ASSERT(cb != 0, "a current buffer exists");
  char *base = cb->yy_ch_buf, *cp = VP_G(yy_c_buf_p);
  int nn = VP_G(yy_n_chars), at = (int)(cp - base);
  VP_ASSERT(at >= 0 && at <= nn, "scan position within the buffered text");
  VP_ASSERT(nn - at == k, "unread input of the buffer neither lost nor duplicated");
  for (int i = 0; i < VP_N; i++) if (i < k) {
    unsigned char have = (i == 0) ? (unsigned char)VP_G(yy_hold_char) : (unsigned char)base[at + i];
    VP_ASSERT(have == s[i], "unread input of the buffer unchanged");
  }
}

int main(void) {
  VP_DECL_SCANNER
#ifdef REPLAY
#include "vp_replay_set.inc"
#else
  for (int i = 0; i < VP_N; i++) { vpi_a[i] = nondet_uchar(); vpi_b[i] = nondet_uchar(); }
  vpi_op = nondet_int(); vpi_sc = nondet_int(); vpi_tail0 = nondet_int(); vpi_tail1 = nondet_int(); vpi_stale = nondet_int();
#if VP_ALLOC_FAIL
  vpi_fail_at = nondet_int();
#endif
#endif
  VP_ASSUME(vpi_sc >= 0 && vpi_sc < VP_NSC);
  VP_ASSUME(vpi_op == VP_OP);
  VP_ASSUME(vpi_tail0 >= 0 && vpi_tail0 <= 255 && vpi_tail1 >= 0 && vpi_tail1 <= 255);
#if VP_OP != 5
  VP_ASSUME(vpi_tail0 == 0 && vpi_tail1 == 0);
#endif
#if VP_ALLOC_FAIL
#ifdef VP_FAIL_AT
  vpi_fail_at = VP_FAIL_AT;            /* one query per failing request index: sizes and control flow stay concrete */
#endif
  VP_ASSUME(vpi_fail_at >= 0 && vpi_fail_at < 8);
  vp_expect_fatal = 1;            /* only legal outcome of a failed allocation besides an error return */
#else
  vp_expect_fatal = 0;
#endif
  for (int i = 0; i < VP_N; i++) { VP_ASSUME(vpi_a[i] != 0 && vpi_b[i] != 0); vp_bufa[i] = (char)vpi_a[i]; vp_bufb[i] = (char)vpi_b[i]; }
  vp_bufa[VP_N] = 0; vp_bufa[VP_N + 1] = 0;
  vp_bufb[VP_N] = (char)vpi_tail0; vp_bufb[VP_N + 1] = (char)vpi_tail1;
#if VP_REENTRANT
  { int rc = yylex_init(&vp_scanner);
#if VP_ALLOC_FAIL
    if (rc != 0) { VP_ASSERT(vp_failed, "yylex_init fails only when an allocation failed"); VP_ASSERT(errno == ENOMEM, "errno is ENOMEM"); return 0; }
#else
    VP_ASSERT(rc == 0, "yylex_init succeeds");
#endif
  }
  VP_AFTER_INIT();
#endif
  yybuffer vpA = VP_SCAN_BUFFER(vp_bufa, VP_N + 2);
  VP_ASSERT(vpA != 0, "yy_scan_buffer accepts a doubly NUL-terminated buffer");
  /* yy_scan_buffer returns NULL exactly for a buffer lacking the two terminating NULs */
  yybuffer vpB = VP_SCAN_BUFFER(vp_bufb, VP_N + 2);
  if (vpi_tail0 != 0 || vpi_tail1 != 0) {
    VP_ASSERT(vpB == 0, "yy_scan_buffer refuses a buffer without the two terminating NULs");
    vpB = VP_SCAN_BYTES(vp_bufb, VP_N);                 /* private copy of exactly the given bytes */
    VP_ASSERT(vpB != 0, "yy_scan_bytes");
    for (int i = 0; i < VP_N; i++) vp_bufb[i] = '#';  /* overwriting the source must not matter */
  } else {
    VP_ASSERT(vpB != 0, "yy_scan_buffer accepts the second buffer");
  }
  VP_ASSERT(VP_CURBUF() == vpB, "the buffer just made is current");
  vp_unread_is(vpi_b, VP_N VP_A1);
  yy_switch_to_buffer(vpA VP_A1);
  VP_BEGIN(vpi_sc);
  int tot = 0;
  int rr = vp_first_token(vpi_a, VP_N, vpi_sc, 1, &tot);
  int t = VP_LEX();
  if (VP_N == 0) { VP_ASSERT(t == vp_eofret[vpi_sc], "end of input"); }
  else {
    VP_ASSERT(t == vp_actid[rr], "token of the first buffer");
    VP_ASSERT(VP_LENG == tot || vp_has_trail(rr), "token length");
  }
  int used = (VP_N == 0) ? 0 : VP_LENG;
  int eof_reset = (VP_N == 0);
  /* while a buffer is current the scanner keeps its character count in the scanner state; the copy in
   * the buffer object is stale (after a refill it really differs) until the buffer is left */
  if (!eof_reset) vpA->yy_n_chars = vpi_stale;
  switch (VP_OP) {
  case 0: /* switch away and back */
    yy_switch_to_buffer(vpB VP_A1);
    vp_unread_is(vpi_b, VP_N VP_A1);
    yy_switch_to_buffer(vpA VP_A1);
    break;
  case 1: /* push and pop */
    yypush_buffer_state(vpB VP_A1);
    VP_ASSERT(VP_CURBUF() == vpB, "pushed buffer is current");
    vp_unread_is(vpi_b, VP_N VP_A1);
    yypop_buffer_state(VP_A0);                        /* deletes vpB, returns to vpA */
    vpB = 0;
    break;
  case 2: /* delete the non-current buffer */
    yy_delete_buffer(vpB VP_A1); vpB = 0;
    break;
  case 3: /* flush the other buffer only */
    yy_flush_buffer(vpB VP_A1);
    break;
  case 4: /* switching to the current buffer is a no-op */
    yy_switch_to_buffer(vpA VP_A1);
    break;
  default:
    break;
  }
  VP_ASSERT(VP_CURBUF() == vpA, "the first buffer is current again");
  VP_ASSERT(VP_START() == vpi_sc, "buffer operations do not change the start condition");
  if (!eof_reset) vp_unread_is(vpi_a + used, VP_N - used VP_A1);
  if (VP_OP == 3) {
    yy_switch_to_buffer(vpB VP_A1);
    VP_ASSERT(VP_G(yy_n_chars) == 0, "yy_flush_buffer discards the buffered text");
    yy_switch_to_buffer(vpA VP_A1);
  }
#if VP_SECOND_LEX
  if (!eof_reset && used < VP_N) {
    int tot2 = 0;
    int bol2 = (vpi_a[used - 1] == '\n');
    int r2 = vp_first_token(vpi_a + used, VP_N - used, vpi_sc, bol2, &tot2);
    int t2 = VP_LEX();
    VP_ASSERT(t2 == vp_actid[r2], "scanning the first buffer resumes exactly where it stopped");
  }
#endif
  /* release: user deletes their own non-current buffers, then yylex_destroy */
  if (vpB != 0) yy_delete_buffer(vpB VP_A1);
  VP_DESTROY();
  VP_ASSERT(vp_bad_free == 0, "every pointer given to yyfree/yyrealloc came from yyalloc/yyrealloc and was live");
  VP_ASSERT(vp_live_count() == 0, "all memory obtained through yyalloc/yyrealloc was released");
#if VP_ALLOC_FAIL
  VP_ASSERT(!vp_failed, "a failed allocation is reported (fatal-error hook or error return), never absorbed");
#endif
#ifdef VP_WITNESS
  VP_ASSERT(!(used > 0 && used < VP_N), "WITNESS: buffer operation around a partially scanned buffer");
#endif
  return 0;
}
''')
    txt = '\n'.join(H)
    if cfg.api == 'nr':
        txt = txt.replace('VP_ALLOC_EXTRA2', '').replace('VP_AFTER_INIT();', '')
    elif cfg.api == 'r':
        txt = txt.replace('VP_ALLOC_EXTRA2', ', yyscan_t vp_scanner').replace(
            'VP_AFTER_INIT();', 'yyg = (struct yyguts_t *)vp_scanner; yyscanner = vp_scanner;')
        txt = txt.replace('static void vp_unread_is(const unsigned char *s, int k , yyscan_t vp_scanner) {',
                          'static void vp_unread_is(const unsigned char *s, int k , yyscan_t vp_scanner) { struct yyguts_t *yyg = (struct yyguts_t *)vp_scanner;')
    else:
        txt = txt.replace('VP_ALLOC_EXTRA2', ', yyscan_t vp_scanner').replace('VP_AFTER_INIT();', '')
    # reentrant harnesses do their own init (error return is part of the claim)
    txt = txt.replace('  VP_DECL_SCANNER\n#ifdef REPLAY\n#include "vp_replay_set.inc"', '  VP_DECL_SCANNER\n#ifdef REPLAY\n#include "vp_replay_set.inc"', 1)
    return txt


def wrap_harness(g, cfg, spec, n, witness=False, more=0):
    """End of input with a user yywrap(): the first source is empty; yywrap
    either reports no further input or supplies a second buffer."""
    H = [common_head(g, cfg, spec, max(n, 1)), action_table(spec), eof_table(spec)]
    H.append('#define VP_N %d' % n)
    H.append('#define VP_MORE %d' % more)
    if witness:
        H.append('#define VP_WITNESS %d' % more)
    H.append(r'''
unsigned char vpi_b[VP_N > 0 ? VP_N : 1];
int vpi_sc, vpi_more;
static char vp_bufa[2], vp_bufb[VP_N + 2];
static int vp_wraps;
#ifdef VP_WRAP_ARG
int yywrap(yyscan_t vp_scanner) {
#else
int yywrap(void) {
#endif
  vp_wraps++;
  if (VP_MORE == 1 && vp_wraps == 1) {
    yybuffer nb = VP_SCAN_BUFFER(vp_bufb, VP_N + 2);     /* continue with another source */
    VP_ASSERT(nb != 0, "second source");
    return 0;
  }
  if (VP_MORE == 2 && vp_wraps == 1) {
    yypop_buffer_state(VP_A0);                           /* back to the buffer pushed before (include-file idiom) */
    return 0;
  }
  return 1;
}

int main(void) {
  VP_DECL_SCANNER
#ifdef REPLAY
#include "vp_replay_set.inc"
#else
  for (int i = 0; i < VP_N; i++) vpi_b[i] = nondet_uchar();
  vpi_sc = nondet_int(); vpi_more = nondet_int();
#endif
  VP_ASSUME(vpi_sc >= 0 && vpi_sc < VP_NSC);
  VP_ASSUME(vpi_more == VP_MORE);            /* one query per behaviour of yywrap: 0 stop, 1 new source, 2 pop */
  int nuls = 0;
  for (int i = 0; i < VP_N; i++) { if (vpi_b[i] == 0) nuls++; vp_bufb[i] = (char)vpi_b[i]; }
  VP_ASSUME(nuls <= 1);
  vp_bufa[0] = vp_bufa[1] = 0; vp_bufb[VP_N] = vp_bufb[VP_N + 1] = 0;
  vp_expect_fatal = 0;
  VP_INIT_SCANNER();
  yybuffer a = VP_SCAN_BUFFER(vp_bufa, 2);
  VP_ASSERT(a != 0, "empty first source");
  if (VP_MORE == 2) {
    /* the outer buffer holds the symbolic text and has not been scanned; the empty buffer is pushed on top of it */
    yybuffer outer = VP_SCAN_BUFFER(vp_bufb, VP_N + 2);
    VP_ASSERT(outer != 0, "outer buffer");
    yypush_buffer_state(a VP_A1);
    VP_ASSERT(VP_CURBUF() == a, "pushed buffer is current");
  }
  VP_BEGIN(vpi_sc);
  int tot = 0;
  int rr = vp_first_token(vpi_b, VP_N, vpi_sc, 1, &tot);
  int t = VP_LEX();
  if (!vpi_more || VP_N == 0) {
    VP_ASSERT(t == vp_eofret[vpi_sc], "yywrap reports no further input: the EOF action of the current start condition runs");
    VP_ASSERT(vp_wraps == (vpi_more ? 2 : 1), "yywrap consulted once per exhausted source");
    if (vpi_more == 2) VP_ASSERT(VP_CURBUF() != a, "popping returned to the buffer pushed before");
  } else {
    VP_ASSERT(vp_wraps == 1, "yywrap consulted exactly once");
    VP_ASSERT(t == vp_actid[rr], "scanning continues with the new source (or the buffer popped back to), at beginning of line, nothing lost");
    VP_ASSERT(vp_has_trail(rr) || VP_LENG == tot, "token length in the new source");
  }
  VP_ASSERT(VP_START() == vpi_sc, "end of input does not change the start condition");
#ifdef VP_WITNESS
  VP_ASSERT(!(vpi_more == VP_WITNESS && VP_N > 0 && VP_LENG == VP_N), "WITNESS: token from the second source");
#endif
  return 0;
}
''')
    txt = '\n'.join(H)
    if cfg.api != 'nr':
        txt = txt.replace('#ifdef VP_WRAP_ARG', '#if 1')
    return txt


def iso_harness(g, cfg, spec, n, witness=False):
    """Two instances of a reentrant scanner: stepping one leaves every byte
    of the other's state, buffer object and text unchanged, and each yields
    its own reference token."""
    H = [common_head(g, cfg, spec, max(n, 1)), action_table(spec), eof_table(spec)]
    H.append('#define VP_N %d' % n)
    if witness:
        H.append('#define VP_WITNESS 1')
    H.append(r'''
unsigned char vpi_a[VP_N > 0 ? VP_N : 1], vpi_b[VP_N > 0 ? VP_N : 1];
int vpi_sca, vpi_scb;
static char vp_bufa[VP_N + 2], vp_bufb[VP_N + 2];

int main(void) {
#ifdef REPLAY
#include "vp_replay_set.inc"
#else
  for (int i = 0; i < VP_N; i++) { vpi_a[i] = nondet_uchar(); vpi_b[i] = nondet_uchar(); }
  vpi_sca = nondet_int(); vpi_scb = nondet_int();
#endif
  VP_ASSUME(vpi_sca >= 0 && vpi_sca < VP_NSC && vpi_scb >= 0 && vpi_scb < VP_NSC);
  int nuls = 0;
  for (int i = 0; i < VP_N; i++) { if (!vpi_a[i]) nuls++; if (!vpi_b[i]) nuls++; vp_bufa[i] = (char)vpi_a[i]; vp_bufb[i] = (char)vpi_b[i]; }
  VP_ASSUME(nuls <= 1);
  vp_bufa[VP_N] = vp_bufa[VP_N + 1] = 0; vp_bufb[VP_N] = vp_bufb[VP_N + 1] = 0;
  vp_expect_fatal = 0;
  yyscan_t sa, sb;
  int rc = yylex_init(&sa); VP_ASSERT(rc == 0, "yylex_init A");
  rc = yylex_init(&sb); VP_ASSERT(rc == 0, "yylex_init B");
  VP_ASSERT(sa != sb, "distinct instances");
  yybuffer ba = yy_scan_buffer(vp_bufa, VP_N + 2, sa);
  yybuffer bb = yy_scan_buffer(vp_bufb, VP_N + 2, sb);
  VP_ASSERT(ba != 0 && bb != 0 && ba != bb, "buffers");
  VP_SET_START(sa, vpi_sca); VP_SET_START(sb, vpi_scb);
  int tota = 0, totb = 0;
  int ra = vp_first_token(vpi_a, VP_N, vpi_sca, 1, &tota);
  int rb = vp_first_token(vpi_b, VP_N, vpi_scb, 1, &totb);
  /* instance A stays in the state its creation left it in (one yylex() call per query keeps the
   * formula within reach); snapshot of everything instance A owns */
  int ta = vp_actid[ra];
  struct yyguts_t snap = *(struct yyguts_t *)sa;
  struct yy_buffer_state snapb = *ba;
  char snapt[VP_N + 2];
  for (int i = 0; i < VP_N + 2; i++) snapt[i] = vp_bufa[i];
  int tb = yylex(sb);
  if (VP_N == 0) { VP_ASSERT(tb == vp_eofret[vpi_scb], "end of input"); }
  else {
    VP_ASSERT(tb == vp_actid[rb], "instance B yields its own token, unaffected by A");
    VP_ASSERT(vp_has_trail(rb) || VP_LENG_OF(sb) == totb, "instance B token length");
  }
  {
    struct yyguts_t *ga = (struct yyguts_t *)sa;
#define VP_SAME(f) VP_ASSERT(snap.f == ga->f, "stepping B leaves A's scanner state unchanged: " #f)
    VP_SAME(yy_c_buf_p); VP_SAME(yy_hold_char); VP_SAME(yy_n_chars); VP_SAME(yy_start); VP_SAME(yy_init);
    VP_SAME(yytext_r); VP_SAME(yyleng_r); VP_SAME(yy_buffer_stack); VP_SAME(yy_buffer_stack_top); VP_SAME(yy_buffer_stack_max);
    VP_SAME(yyin_r); VP_SAME(yyout_r); VP_SAME(yy_did_buffer_switch_on_eof);
    VP_ASSERT(ga->yy_buffer_stack[ga->yy_buffer_stack_top] == ba, "A's current buffer unchanged");
  }
  if (VP_N > 0) {
#define VP_SAMEB(f) VP_ASSERT(snapb.f == ba->f, "stepping B leaves A's buffer object unchanged: " #f)
    VP_SAMEB(yy_ch_buf); VP_SAMEB(yy_buf_pos); VP_SAMEB(yy_buf_size); VP_SAMEB(yy_n_chars); VP_SAMEB(yy_buffer_status); VP_SAMEB(yy_fill_buffer);
    for (int i = 0; i < VP_N + 2; i++) VP_ASSERT(snapt[i] == vp_bufa[i], "stepping B leaves A's text unchanged");
  }
#ifdef VP_WITNESS
  VP_ASSERT(!(VP_N > 0 && tb == 1 && yyget_leng(sb) == VP_N), "WITNESS: instance B returns a long token of rule 1");
#endif
  yylex_destroy(sa); yylex_destroy(sb);
  return 0;
}
''')
    txt = '\n'.join(H)
    if cfg.api == 'r':
        txt = txt.replace('VP_SET_START(sa, vpi_sca); VP_SET_START(sb, vpi_scb);',
                          '((struct yyguts_t *)sa)->yy_start = 1 + 2 * vpi_sca; ((struct yyguts_t *)sb)->yy_start = 1 + 2 * vpi_scb;')
        txt = txt.replace('VP_LENG_OF(sb)', 'yyget_leng(sb)')
    else:
        txt = txt.replace('VP_SET_START(sa, vpi_sca); VP_SET_START(sb, vpi_scb);', 'yybegin(vpi_sca, sa); yybegin(vpi_scb, sb);')
        txt = txt.replace('VP_LENG_OF(sb)', 'yyget_leng(sb)')
    return txt



TABLE_LOADER = r'''
/* serialized tables (--tables-file): the bytes flex wrote are embedded and
 * handed to the generated reader yytables_fload() through stdio stubs */
static const unsigned char vp_tbl[] = { %(bytes)s };
static size_t vp_tbl_pos; static int vp_tbl_err;
#ifndef REPLAY
static int vp_tbl_file;
size_t fread(void *p, size_t sz, size_t n, FILE *f) {
  size_t want = sz * n, have = sizeof vp_tbl - vp_tbl_pos;
  if (want > have) { vp_tbl_pos = sizeof vp_tbl; return 0; }
  for (size_t i = 0; i < 8; i++) if (i < want) ((unsigned char *)p)[i] = vp_tbl[vp_tbl_pos + i];
  vp_tbl_pos += want;
  return n;
}
int feof(FILE *f) { return vp_tbl_pos >= sizeof vp_tbl; }
int fseek(FILE *f, long off, int wh) { vp_tbl_pos += (size_t)off; return 0; }
#define VP_TBL_OPEN() ((FILE *)&vp_tbl_file)
#else
#define VP_TBL_OPEN() fmemopen((void *)vp_tbl, sizeof vp_tbl, "rb")
#endif
#define VP_LOAD_TABLES() do { int vp_lrc = yytables_fload(VP_TBL_OPEN() VP_A1); VP_ASSERT(vp_lrc == 0, "yytables_fload succeeds on the file flex wrote"); } while (0)
'''


def with_tables(harness_text, g, tables_path):
    """Turn an e1/e2 harness into one that first loads the serialized tables."""
    with open(tables_path, 'rb') as fh:
        data = fh.read()
    loader = TABLE_LOADER % dict(bytes=','.join(str(b) for b in data))
    marker = 'static void vp_fatal(const char *m) {'
    harness_text = harness_text.replace(marker, loader + '\n' + marker, 1)
    harness_text = harness_text.replace('  VP_INIT_SCANNER();\n', '  VP_INIT_SCANNER();\n  VP_LOAD_TABLES();\n', 1)
    return harness_text, len(data)


def stack_harness(g, cfg, spec, npush=27, nsym=3, witness=False):
    """Start-condition stack: (a) npush pushes with symbolic conditions (past
    YY_START_STACK_INCR) then as many pops, LIFO order; (b) a short sequence of
    solver-chosen push/pop/begin operations against an array model; (c) pop of
    an empty stack reaches the fatal-error hook."""
    H = [common_head(g, cfg, spec, 1)]
    H.append('#define VP_NPUSH %d' % npush)
    H.append('#define VP_NSYM %d' % nsym)
    H.append('#define VP_NONREENTRANT %d' % (1 if cfg.api == 'nr' else 0))
    if witness:
        H.append('#define VP_WITNESS 1')
    H.append(r'''
unsigned char vpi_val[VP_NPUSH], vpi_op[VP_NSYM], vpi_arg[VP_NSYM];
int vpi_sc0, vpi_underflow, vpi_destroy, vpi_reuse_push;
static int vp_model[VP_NPUSH + VP_NSYM + 1], vp_depth, destroyed_depth;

int main(void) {
  VP_DECL_SCANNER
#ifdef REPLAY
#include "vp_replay_set.inc"
#else
  for (int i = 0; i < VP_NPUSH; i++) vpi_val[i] = nondet_uchar();
  for (int i = 0; i < VP_NSYM; i++) { vpi_op[i] = nondet_uchar(); vpi_arg[i] = nondet_uchar(); }
  vpi_sc0 = nondet_int(); vpi_underflow = nondet_int(); vpi_destroy = nondet_int(); vpi_reuse_push = nondet_int();
#endif
  VP_ASSUME(vpi_sc0 >= 0 && vpi_sc0 < VP_NSC);
  VP_ASSUME(vpi_underflow == 0 || vpi_underflow == 1);
  VP_ASSUME(vpi_destroy == 0 || vpi_destroy == 1);
  VP_ASSUME(vpi_reuse_push == 0 || vpi_reuse_push == 1);
  /* the deep part uses a fixed pattern of conditions (sizes and indices stay concrete); the short
   * history before it is chosen by the solver */
  for (int i = 0; i < VP_NPUSH; i++) VP_ASSUME(vpi_val[i] == (unsigned char)((i * 3 + 1) % VP_NSC));
  for (int i = 0; i < VP_NSYM; i++) VP_ASSUME(vpi_op[i] <= 2 && vpi_arg[i] < VP_NSC);
  vp_expect_fatal = 0;
  VP_INIT_SCANNER();
  VP_BEGIN(vpi_sc0);
  int cur = vpi_sc0;
  /* (a) deep stack: growth past the initial allocation, then LIFO order */
  int base = vp_depth;
  for (int i = 0; i < VP_NPUSH; i++) { int v = (i * 3 + 1) % VP_NSC; vp_model[vp_depth++] = cur; cur = v; yy_push_state(v VP_A1); }
  VP_ASSERT(VP_START() == cur, "condition after the pushes");
  for (int i = 0; i < VP_NPUSH; i++) {
    yy_pop_state(VP_A0); cur = vp_model[--vp_depth];
    VP_ASSERT(VP_START() == cur, "pops return the conditions in reverse order of the pushes");
  }
  VP_ASSERT(vp_depth == base, "model depth");
  /* (b) solver-chosen short history */
  for (int i = 0; i < VP_NSYM; i++) {
    if (vpi_op[i] == 0) { vp_model[vp_depth++] = cur; cur = vpi_arg[i]; yy_push_state(vpi_arg[i] VP_A1); }
    else if (vpi_op[i] == 1) {
      if (vp_depth == 0) continue;
      cur = vp_model[--vp_depth]; yy_pop_state(VP_A0);
    } else { cur = vpi_arg[i]; VP_BEGIN(vpi_arg[i]); }
    VP_ASSERT(VP_START() == cur, "yystart() reports the condition set by yybegin/yy_push_state/yy_pop_state");
#ifdef VP_HAS_TOP_STATE
    if (vp_depth > 0) VP_ASSERT(yy_top_state(VP_A0) == vp_model[vp_depth - 1], "yy_top_state() is the condition a pop would return to");
#endif
  }
#if VP_NONREENTRANT
  /* (b') a destroyed non-reentrant scanner can be used again as if fresh: whatever the
   * stack held, after yylex_destroy() the condition is INITIAL and the stack is empty */
  if (vpi_destroy) {
    destroyed_depth = vp_depth;
    yylex_destroy();
    vp_depth = 0; cur = 0;
    VP_ASSERT(VP_START() == 0, "after yylex_destroy() the scanner starts in INITIAL again");
    if (vpi_reuse_push) {
      vp_model[vp_depth++] = cur; cur = vpi_arg[0]; yy_push_state(vpi_arg[0]);
      VP_ASSERT(VP_START() == cur, "push after reuse");
      yy_pop_state(); cur = vp_model[--vp_depth];
      VP_ASSERT(VP_START() == cur, "pop after reuse returns to INITIAL");
    }
  }
#endif
  for (int i = 0; i < VP_NSYM; i++) if (vp_depth > 0) { yy_pop_state(VP_A0); cur = vp_model[--vp_depth]; }
  VP_ASSERT(vp_depth == 0, "model stack empty");
  VP_ASSERT(VP_START() == cur, "stack emptied");
#ifdef VP_WITNESS
#if VP_NONREENTRANT
  VP_ASSERT(!(vpi_destroy && destroyed_depth >= 1), "WITNESS: scanner destroyed with a non-empty start-condition stack and used again");
#else
  VP_ASSERT(!(vpi_op[0] == 0 && vpi_op[1] == 1 && vpi_op[2] == 0), "WITNESS: push, pop, push history");
#endif
#endif
  /* (c) underflow is a reported fatal error */
  if (vpi_underflow) {
    vp_expect_fatal = 1;
    yy_pop_state(VP_A0);
    VP_ASSERT(0, "popping an empty start-condition stack must not return");
  }
  return 0;
}
''')
    txt = '\n'.join(H)
    if has_name(g, 'yy_top_state'):
        txt = txt.replace('#define VP_NPUSH', '#define VP_HAS_TOP_STATE 1\n#define VP_NPUSH', 1)
    return txt


# ---------------------------------------------------------------------------
# RD: the generated input routine yyread() against an environment whose every
# stdio / read(2) result is a solver variable within the documented contract

def yyread_harness(g, cfg, spec, variant, m=3, k=3, cap=3, witness=False):
    """variant: 'fread' (batch stdio), 'getc' (interactive stdio), 'read' (%option read).
    Logical source = m symbolic bytes; each call of the environment function
    delivers a solver-chosen number of them and optionally reports EINTR or a
    hard error.  One call of the scanner's own yyread()."""
    pre = r'''
#include <errno.h>
#include <unistd.h>
#undef getc
#undef ferror
#undef clearerr
#undef fileno
static size_t vp_fread(void *p, size_t sz, size_t nm, FILE *fp);
static int vp_ferror(FILE *fp); static void vp_clearerr(FILE *fp); static int vp_getc(FILE *fp);
static long vp_read2(int fd, void *p, size_t n); static int vp_fileno(FILE *fp);
#define fread vp_fread
#define ferror vp_ferror
#define clearerr vp_clearerr
#define getc vp_getc
#define read vp_read2
#define fileno vp_fileno
'''
    h = common_head(g, cfg, spec, 1)
    marker = '#include "%s"' % os.path.basename(g.cpath)
    h = h.replace(marker, pre + '\n' + marker)
    H = ['#define VP_M %d' % m, '#define VP_K %d' % k, '#define VP_CAP %d' % cap,
         '#define VP_VARIANT_%s 1' % variant.upper(), h]
    if witness:
        H.append('#define VP_WITNESS 1')
    H.append(r'''
#undef fread
#undef ferror
#undef clearerr
#undef getc
#undef read
#undef fileno
unsigned char vpi_src[VP_M];
int vpi_d[VP_K], vpi_err[VP_K], vpi_max, vpi_avail;
static int vp_fake_file, vp_calls, vp_pos, vp_errflag, vp_eof, vp_hard, vp_eintr_seen, vp_lost;
static char vp_out[VP_CAP + 2];
static struct yy_buffer_state vp_bs;
static yybuffer vp_stack[1];

/* one environment event: hand over d bytes of the logical source, then maybe flag an error */
static int vp_event(char *dst, size_t want) {
  int i = vp_calls++;
  VP_ASSUME(i < VP_K);                           /* more events than the bound: outside the claim */
  int d = vpi_d[i], e = vpi_err[i];
  VP_ASSUME(d >= 0 && (size_t)d <= want && d <= vpi_avail - vp_pos);
  VP_ASSUME(e == 0 || e == 1 || e == 2);
  for (int j = 0; j < VP_M; j++) if (j < d) dst[j] = (char)vpi_src[vp_pos + j];
  vp_pos += d;
  if (e) { vp_errflag = 1; errno = (e == 1) ? EINTR : EIO; if (e == 1) vp_eintr_seen = 1; if (d == 0 && e == 2) { vp_hard = 1; vp_expect_fatal = 1; } }
  else if ((size_t)d < want) { VP_ASSUME(vp_pos == vpi_avail); vp_eof = 1; }   /* short count without error only at end of file */
  return d;
}
static size_t vp_fread(void *p, size_t sz, size_t nm, FILE *fp) {
  VP_ASSERT(fp == (FILE *)&vp_fake_file && sz == 1, "fread on yyin, element size 1");
  return (size_t)vp_event((char *)p, nm);
}
static long vp_read2(int fd, void *p, size_t n) {
  VP_ASSERT(fd == 7, "read on fileno(yyin)");
  /* read(2): an error delivers nothing and returns -1 */
  int i = vp_calls;
  VP_ASSUME(i < VP_K);
  if (vpi_err[i]) VP_ASSUME(vpi_d[i] == 0);
  int d = vp_event((char *)p, n);
  return vpi_err[i] ? -1 : d;
}
static int vp_getc(FILE *fp) {
  /* getc: byte after byte; an event with d == 0 is EOF / error, d >= 1 hands over ONE byte */
  VP_ASSERT(fp == (FILE *)&vp_fake_file, "getc on yyin");
  int i = vp_calls;
  VP_ASSUME(i < VP_K + VP_M);
  char c;
  if (vp_pos < vpi_avail && !(i < VP_K && vpi_d[i] == 0)) { vp_calls++; c = (char)vpi_src[vp_pos++]; return (unsigned char)c; }
  VP_ASSUME(i < VP_K && vpi_d[i] == 0);
  int e = vpi_err[i]; vp_calls++;
  VP_ASSUME(e == 0 || e == 1 || e == 2);
  if (e) { vp_errflag = 1; errno = (e == 1) ? EINTR : EIO; if (e == 1) vp_eintr_seen = 1; if (e == 2) { vp_hard = 1; vp_expect_fatal = 1; } }
  else { VP_ASSUME(vp_pos == vpi_avail); vp_eof = 1; }
  return EOF;
}
static int vp_ferror(FILE *fp) { return vp_errflag; }
static void vp_clearerr(FILE *fp) { vp_errflag = 0; }
static int vp_fileno(FILE *fp) { return 7; }

int main(void) {
  VP_DECL_SCANNER
#ifdef REPLAY
#include "vp_replay_set.inc"
#else
  for (int i = 0; i < VP_M; i++) vpi_src[i] = nondet_uchar();
  for (int i = 0; i < VP_K; i++) { vpi_d[i] = nondet_int(); vpi_err[i] = nondet_int(); }
  vpi_max = nondet_int(); vpi_avail = nondet_int();
#endif
  VP_ASSUME(vpi_max >= 1 && vpi_max <= VP_CAP);
  VP_ASSUME(vpi_avail >= 0 && vpi_avail <= VP_M);
  VP_INIT_SCANNER();
  vp_bs.yy_input_file = (FILE *)&vp_fake_file;
  vp_bs.yy_ch_buf = vp_out; vp_bs.yy_buf_pos = vp_out;
  vp_bs.yy_buf_size = VP_CAP; vp_bs.yy_n_chars = 0;
  vp_bs.yy_is_our_buffer = 1; vp_bs.yy_fill_buffer = 1; vp_bs.yy_buffer_status = YY_BUFFER_NORMAL;
#ifdef VP_VARIANT_GETC
  vp_bs.yy_is_interactive = 1;
#else
  vp_bs.yy_is_interactive = 0;
#endif
  vp_stack[0] = &vp_bs;
  VP_G(yy_buffer_stack) = vp_stack; VP_G(yy_buffer_stack_top) = 0; VP_G(yy_buffer_stack_max) = 1;
  VP_G(yy_init) = 1; VP_G(yy_start) = 1;
  yyin = (FILE *)&vp_fake_file;
  errno = 0;

  int result = yyread(vp_out, (size_t)vpi_max VP_A1);

  /* normal return: the fatal-error hook ends the path, so a hard error reported by the source must not get here */
  VP_ASSERT(!vp_hard, "a read error reported by the input source is never absorbed");
  VP_ASSERT(result >= 0 && result <= vpi_max, "result within the requested size");
  VP_ASSERT(result == vp_pos, "every byte handed over by the source is returned exactly once (none lost to a retry)");
  for (int j = 0; j < VP_CAP; j++) if (j < result) VP_ASSERT((unsigned char)vp_out[j] == vpi_src[j], "bytes arrive in source order, not overwritten by a retried read");
  if (result == 0) VP_ASSERT(vp_eof, "end of input is reported only when the source reported end of file");
#ifdef VP_WITNESS
  VP_ASSERT(!(vp_eintr_seen && result > 0 && vp_calls >= 2), "WITNESS: an interrupted read is retried and delivers input");
#endif
  return 0;
}
''')
    return '\n'.join(H)


# ---------------------------------------------------------------------------
# TL: the generated tables reader on a file image whose table contents are solver variables

def tload_harness(g, cfg, spec, layout, w1, w2, n=2, cut=False, witness=False, cut_at=0):
    """layout: sequence of 'W' (the set named for this scanner) and 'O' (a set with another name).
    The wanted set holds table YYTD_ID_ACCEPT (n elements of width w1) and YYTD_ID_EC (n elements of
    width w2); the other sets hold one YYTD_ID_BASE table.  Element bytes are symbolic."""
    pre = r'''
#undef feof
static size_t vp_fread(void *p, size_t sz, size_t nm, FILE *fp);
static int vp_feof(FILE *fp); static int vp_fseek(FILE *fp, long off, int wh);
#define fread vp_fread
#define feof vp_feof
#define fseek vp_fseek
'''
    h = common_head(g, cfg, spec, 1)
    marker = '#include "%s"' % os.path.basename(g.cpath)
    h = h.replace(marker, pre + '\n' + marker)
    h = h.replace(ALLOC, r'''
static int vp_live;
void *yyalloc(VP_SIZE_T n VP_ALLOC_EXTRA) { void *p = malloc(n); VP_ASSUME(p != 0); vp_live++; return p; }
void *yyrealloc(void *q, VP_SIZE_T n VP_ALLOC_EXTRA) { void *p = realloc(q, n); VP_ASSUME(p != 0); if (!q) vp_live++; return p; }
void yyfree(void *p VP_ALLOC_EXTRA) { if (p) vp_live--; free(p); }
''')
    H = ['#define VP_N %d' % n, '#define VP_W1 %d' % w1, '#define VP_W2 %d' % w2,
         '#define VP_NSETS %d' % len(layout), '#define VP_LAYOUT "%s"' % layout, '#define VP_CUT %d' % (1 if cut else 0), '#define VP_CUT_AT %d' % cut_at, h]
    if witness:
        H.append('#define VP_WITNESS 1')
    H.append(r'''
#undef fread
#undef feof
#undef fseek
#define VP_FMAX 256
unsigned char vpi_d1[VP_N * 4], vpi_d2[VP_N * 4], vpi_o[VP_NSETS * 4];
int vpi_cut;
static unsigned char vp_file[VP_FMAX];
static int vp_len, vp_pos, vp_eof, vp_fake_file, vp_wend;

/* independent writer: the documented layout (flex manual, "Tables File Format"), big-endian, 64-bit padding */
static void put8(int v) { vp_file[vp_len++] = (unsigned char)v; }
static void put16(int v) { put8(v >> 8); put8(v); }
static void put32(unsigned v) { put16((int)(v >> 16)); put16((int)(v & 0xffff)); }
static void putstr(const char *s) { for (int i = 0; i < 12; i++) { put8(s[i]); if (!s[i]) break; } }
static void pad8(int base) { for (int i = 0; i < 8; i++) if ((vp_len - base) % 8) put8(0); }
static int wflag(int w) { return w == 1 ? 0x01 : w == 2 ? 0x02 : 0x04; }
static void put_table(int base, int id, int w, int n, const unsigned char *bytes) {
  put16(id); put16(wflag(w)); put32(0); put32((unsigned)n);
  for (int i = 0; i < 16; i++) if (i < n * w) put8(bytes[i]);
  pad8(base);
}
static void put_set(const char *name, int wanted, int k) {
  int base = vp_len;
  put32(0xF13C57B1u); int hs_at = vp_len; put32(0); int ss_at = vp_len; put32(0); put16(0);
  putstr("2.6.4"); putstr(name); pad8(base);
  int hsize = vp_len - base;
  if (wanted) { put_table(base, YYTD_ID_ACCEPT, VP_W1, VP_N, vpi_d1); put_table(base, YYTD_ID_EC, VP_W2, VP_N, vpi_d2); }
  else put_table(base, YYTD_ID_BASE, 1, 4, vpi_o + 4 * k);
  int ssize = vp_len - base;
  vp_file[hs_at + 2] = (unsigned char)(hsize >> 8); vp_file[hs_at + 3] = (unsigned char)hsize;
  vp_file[ss_at + 2] = (unsigned char)(ssize >> 8); vp_file[ss_at + 3] = (unsigned char)ssize;
  if (wanted) vp_wend = vp_len;
}
static long vp_val(const unsigned char *b, int w, int i) {
  /* element i, width w, big-endian two's complement */
  if (w == 1) return (signed char)b[i];
  if (w == 2) return (short)((b[2 * i] << 8) | b[2 * i + 1]);
  return (int)(((unsigned)b[4 * i] << 24) | ((unsigned)b[4 * i + 1] << 16) | ((unsigned)b[4 * i + 2] << 8) | b[4 * i + 3]);
}

static size_t vp_fread(void *p, size_t sz, size_t nm, FILE *fp) {
  VP_ASSERT(fp == (FILE *)&vp_fake_file, "reads go to the stream given to yytables_fload");
  size_t want = sz * nm, have = (size_t)(vp_len - vp_pos);
  VP_ASSERT(want <= 64, "read request within the header/element sizes of this file");
  size_t got = want <= have ? want : have;
  for (size_t i = 0; i < 64; i++) if (i < got) ((unsigned char *)p)[i] = vp_file[vp_pos + i];
  vp_pos += (int)got;
  if (got < want) vp_eof = 1;
  return sz ? got / sz : 0;
}
static int vp_feof(FILE *fp) { return vp_eof; }
static int vp_fseek(FILE *fp, long off, int wh) {
  VP_ASSERT(wh == SEEK_CUR && off >= 0, "the reader only skips forward");
  vp_pos += (int)off; if (vp_pos > vp_len) vp_pos = vp_len;
  vp_eof = 0;
  return 0;
}

int main(void) {
  VP_DECL_SCANNER
#ifdef REPLAY
#include "vp_replay_set.inc"
#else
  for (int i = 0; i < VP_N * 4; i++) { vpi_d1[i] = nondet_uchar(); vpi_d2[i] = nondet_uchar(); }
  for (int i = 0; i < VP_NSETS * 4; i++) vpi_o[i] = nondet_uchar();
  vpi_cut = nondet_int();
#endif
  VP_INIT_SCANNER();
  const char *lay = VP_LAYOUT;
  int wanted_present = 0;
  for (int k = 0; k < VP_NSETS; k++) {
    if (lay[k] == 'W') { put_set(YYTABLES_NAME, 1, k); wanted_present = 1; }
    else put_set("zztables", 0, k);
  }
#if VP_CUT
  /* damaged file: cut anywhere before the end of the wanted set */
  VP_ASSUME(vpi_cut == VP_CUT_AT && vpi_cut >= 0 && vpi_cut < vp_wend);   /* one query per offset: a symbolic length makes every read symbolic (no verdict in 300 s) */
  vp_len = vpi_cut;
  vp_expect_fatal = 1;                 /* the loader may also stop through the fatal-error hook */
#endif
  int rc = yytables_fload((FILE *)&vp_fake_file VP_A1);
#if VP_CUT
  VP_ASSERT(rc != 0, "loading a truncated file fails");
#else
  VP_ASSERT(rc == 0, "the set named for this scanner is found and loaded wherever it is in the file");
  VP_ASSERT(yy_accept != 0 && yy_ec != 0, "every table of the wanted set is loaded");
  for (int i = 0; i < VP_N; i++) {
    VP_ASSERT(yy_accept[i] == (__typeof__(yy_accept[0]))vp_val(vpi_d1, VP_W1, i), "elements are widened with their sign (accept table)");
    VP_ASSERT(yy_ec[i] == (__typeof__(yy_ec[0]))vp_val(vpi_d2, VP_W2, i), "elements are converted to the local element type (ec table)");
  }
  VP_ASSERT(yy_base == 0, "tables of a set with another name are not loaded");
  VP_ASSERT(vp_pos == vp_wend, "the reader consumes exactly the wanted set");
  yytables_destroy(VP_A0);
  VP_ASSERT(vp_live == 0, "yytables_destroy releases every loaded table");
  VP_ASSERT(yy_accept == 0 && yy_ec == 0, "table pointers are reset");
#ifdef VP_WITNESS
  VP_ASSERT(!(yy_accept == 0), "WITNESS: load and destroy completed");
#endif
#endif
  return 0;
}
''')
    return '\n'.join(H)
