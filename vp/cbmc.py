"""goto-cc / cbmc job runner: loop mapping, unwindset, pool, verdicts."""
import json
import os
import re
import resource
import subprocess
import time
from concurrent.futures import ThreadPoolExecutor

NCPU = int(os.environ.get('VP_JOBS', '16'))

# marker text in the generated scanner -> loop class
LOOP_CLASSES = [
    ('chain', re.compile(r'while \( yy_chk\[')),
    ('match', re.compile(r'while \( yy_base\[yy_current_state\] != YY_JAMBASE|'
                         r'while \( yy_current_state != YY_JAMSTATE|'
                         r'while \(\(yy_current_state = yy_nxt\[|'
                         r'yy_verify == yy_c')),
    ('goto_match', re.compile(r'goto yy_match')),
    ('goto_find_action', re.compile(r'goto yy_find_action')),
    ('goto_find_rule', re.compile(r'goto find_rule')),
    ('goto_do_action', re.compile(r'goto do_action')),
    ('outer', re.compile(r'while \( /\*CONSTCOND\*/\s*1 \)')),
    ('prevstate', re.compile(r'for \( yy_cp = ')),
    ('find_rule_for', re.compile(r'for \( ; ; \)')),
    ('move', re.compile(r'for \( i = 0; i < number_to_move')),
    ('grow', re.compile(r'while \( num_to_read <= 0 \)')),
    ('lineno', re.compile(r'for \( yyl = |YY_LINENO_REWIND_TO')),
    ('getc', re.compile(r'for \( n = 0; n < max_size|while \( n < max_size && c != ')),
    ('fread', re.compile(r'while \( \(result = ')),
    ('shiftup', re.compile(r'while \( source > ')),
    ('copybytes', re.compile(r'for \( i = 0; i < _yybytes_len')),
    ('popall', re.compile(r'while\s*\(\s*yy_current_buffer\(\)\s*\)')),
    ('action_site', re.compile(r'vp_visit\(')),
    ('once', re.compile(r'YY_DO_BEFORE_ACTION|yyecho\(\)|ECHO|YY_INPUT\(|while \( 0 \)|while\(0\)')),
]


class Job:
    def __init__(self, name, workdir, sources, bounds, defines=(), includes=(),
                 checks='functional', default_bound=2, harness_bound=None,
                 timeout=600, mem_mb=8000, extra=(), meta=None, object_bits=None,
                 gen_file=None, malloc_may_fail=False, expect='proved'):
        self.name = name
        self.workdir = workdir
        self.sources = list(sources)
        self.bounds = dict(bounds)            # loop class -> bound
        self.defines = list(defines)
        self.includes = list(includes)
        self.checks = checks                  # 'functional' | 'safety'
        self.default_bound = default_bound
        self.harness_bound = harness_bound
        self.timeout = timeout
        self.mem_mb = mem_mb
        self.extra = list(extra)
        self.meta = meta or {}
        self.object_bits = object_bits
        self.gen_file = gen_file
        self.malloc_may_fail = malloc_may_fail
        self.expect = expect                  # 'proved' or 'witness' (assertion must FAIL)
        # results
        self.status = None                    # proved|failed|inconclusive|error
        self.reason = ''
        self.failed = []                      # [(property, description, trace)]
        self.stats = {}
        self.cmd = ''


def _limits(mem_mb):
    def f():
        lim = mem_mb * 1024 * 1024
        resource.setrlimit(resource.RLIMIT_AS, (lim, lim))
        os.setsid()
    return f


def _src_line(cache, path, line):
    if path not in cache:
        try:
            with open(path, errors='replace') as fh:
                cache[path] = fh.read().split('\n')
        except OSError:
            cache[path] = []
    L = cache[path]
    return L[line - 1] if 0 < line <= len(L) else ''


def classify_loops(job, gb):
    p = subprocess.run(['goto-instrument', '--show-loops', '--json-ui', gb],
                       stdout=subprocess.PIPE, stderr=subprocess.PIPE, cwd=job.workdir)
    try:
        data = json.loads(p.stdout.decode('latin-1'))
    except ValueError:
        return None, 'show-loops output not parsed'
    loops = []
    for item in data:
        if isinstance(item, dict) and 'loops' in item:
            loops = item['loops']
    cache = {}
    us = []
    info = []
    for lp in loops:
        name = lp['name']
        loc = lp.get('sourceLocation', {})
        f = loc.get('file', '')
        fn = loc.get('function', '')
        if f.startswith('<builtin'):
            # C library models shipped with cbmc (memcpy etc.)
            if job.harness_bound is not None:
                us.append('%s:%d' % (name, job.harness_bound))
            continue
        line = int(loc.get('line', '0') or 0)
        path = f if os.path.isabs(f) else os.path.join(loc.get('workingDirectory', job.workdir), f)
        cls = None
        in_gen = job.gen_file is not None and os.path.basename(path) == os.path.basename(job.gen_file)
        if in_gen:
            for d in (0, 1, -1):
                txt = _src_line(cache, path, line + d)
                for cname, rx in LOOP_CLASSES:
                    if rx.search(txt):
                        cls = cname
                        break
                if cls:
                    break
            if cls in ('goto_match', 'goto_find_action'):
                # which arm of the end-of-buffer case the back edge belongs to (NUL transition, refill
                # continued, last match): the arms have different bounds for a given kind of source
                for d in range(1, 16):
                    t = _src_line(cache, path, line - d)
                    sub = None
                    if 'case EOB_ACT_CONTINUE_SCAN' in t:
                        sub = 'cont'
                    elif 'case EOB_ACT_LAST_MATCH' in t:
                        sub = 'last'
                    elif 'yy_try_NUL_trans' in t or 'Consume the NUL' in t or 'Still need to initialize' in t:
                        sub = 'nul'
                    if sub:
                        if (cls + '_' + sub) in job.bounds:
                            cls = cls + '_' + sub
                        break
            key = '%s@%s' % (cls, fn)
            if cls is None and ('fn:' + fn) in job.bounds:
                cls = 'fn:' + fn
                b = job.bounds[cls]
            elif key in job.bounds:
                b = job.bounds[key]
            elif cls in job.bounds:
                b = job.bounds[cls]
            elif cls == 'once':
                b = 1
            else:
                b = job.default_bound
        else:
            cls = 'harness'
            b = job.bounds.get('harness:' + name, job.harness_bound)
        info.append((name, cls, b, line))
        if b is not None:
            us.append('%s:%d' % (name, b))
    return us, info


def run_job(job, deadline=None):
    t0 = time.time()
    if deadline is not None and t0 > deadline:
        job.status = 'skipped'
        job.reason = 'time budget of this tier exhausted before the job started'
        return job
    os.makedirs(job.workdir, exist_ok=True)
    gb = os.path.join(job.workdir, job.name + '.gb')
    cc = ['goto-cc', '-o', gb] + ['-D' + d for d in job.defines] + ['-I' + i for i in job.includes] + job.sources
    if job.object_bits:
        cc = cc[:1] + ['--object-bits', str(job.object_bits)] + cc[1:]
    p = subprocess.run(cc, stdout=subprocess.PIPE, stderr=subprocess.PIPE, cwd=job.workdir)
    if p.returncode != 0:
        job.status = 'error'
        job.reason = 'goto-cc failed: ' + (p.stdout + p.stderr).decode('latin-1')[-1500:]
        job.stats['wall_s'] = time.time() - t0
        return job
    us, info = classify_loops(job, gb)
    if us is None:
        job.status = 'error'
        job.reason = info
        return job
    job.loopinfo = info
    cmd = ['cbmc', gb, '--json-ui', '--verbosity', '8', '--unwinding-assertions',
           '--drop-unused-functions', '--trace']
    if us:
        cmd += ['--unwindset', ','.join(us)]
    if job.checks == 'functional':
        cmd += ['--no-standard-checks']
    if not job.malloc_may_fail:
        cmd += ['--no-malloc-may-fail']
    if job.object_bits:
        cmd += ['--object-bits', str(job.object_bits)]
    cmd += job.extra
    job.cmd = ' '.join(cmd)
    try:
        p = subprocess.Popen(cmd, stdout=subprocess.PIPE, stderr=subprocess.PIPE,
                             cwd=job.workdir, preexec_fn=_limits(job.mem_mb))
        try:
            out, err = p.communicate(timeout=job.timeout)
        except subprocess.TimeoutExpired:
            try:
                os.killpg(p.pid, 9)
            except OSError:
                p.kill()
            p.communicate()
            job.status = 'inconclusive'
            job.reason = 'timeout %ds' % job.timeout
            job.stats['wall_s'] = time.time() - t0
            return job
        ru = resource.getrusage(resource.RUSAGE_CHILDREN)
        job.stats['maxrss_children_kb'] = ru.ru_maxrss
    except OSError as e:
        job.status = 'error'
        job.reason = str(e)
        return job
    job.stats['wall_s'] = time.time() - t0
    text = out.decode('latin-1')
    _parse_output(job, text, p.returncode, err.decode('latin-1'))
    if os.environ.get('VP_KEEP_OUT'):
        with open(os.path.join(job.workdir, job.name + '.out.json'), 'w') as fh:
            fh.write(text)
    try:
        os.unlink(gb)
    except OSError:
        pass
    return job


def _parse_output(job, text, rc, err):
    try:
        data = json.loads(text)
    except ValueError:
        job.status = 'inconclusive' if rc in (-9, -6, 134, 137) or 'bad_alloc' in err or 'Out of memory' in err else 'error'
        job.reason = 'no parsable output (rc %s): %s' % (rc, (err or text)[-600:])
        if 'std::bad_alloc' in err or 'memory' in err.lower():
            job.status = 'inconclusive'
            job.reason = 'memory cap'
        return
    results = None
    for item in data:
        if not isinstance(item, dict):
            continue
        mt = item.get('messageText')
        if mt:
            m = re.search(r'size of program expression: (\d+) steps', mt)
            if m:
                job.stats['steps'] = int(m.group(1))
            m = re.search(r'(\d+) variables, (\d+) clauses', mt)
            if m:
                job.stats['variables'] = max(job.stats.get('variables', 0), int(m.group(1)))
                job.stats['clauses'] = max(job.stats.get('clauses', 0), int(m.group(2)))
            m = re.search(r'Runtime Solver: ([0-9.e+-]+)s', mt)
            if m:
                job.stats['solver_s'] = job.stats.get('solver_s', 0.0) + float(m.group(1))
            m = re.search(r'Runtime decision procedure: ([0-9.e+-]+)s', mt)
            if m:
                job.stats['decision_s'] = job.stats.get('decision_s', 0.0) + float(m.group(1))
            if item.get('messageType') == 'ERROR':
                job.stats.setdefault('errors', []).append(mt[:300])
        if 'result' in item:
            results = item['result']
    if results is None:
        job.status = 'error'
        job.reason = 'no result section (rc %s): %s' % (rc, '; '.join(job.stats.get('errors', []))[-600:] or err[-600:])
        if 'bad_alloc' in err or 'bad_alloc' in text or 'out of memory' in text.lower() or 'out of memory' in err.lower():
            job.status = 'inconclusive'
            job.reason = 'memory cap'
        return
    job.stats['properties'] = len(results)
    fails = [r for r in results if r.get('status') == 'FAILURE']
    unwind_fails = [r for r in fails if '.unwind.' in r.get('property', '') or 'unwinding assertion' in r.get('description', '')]
    real_fails = [r for r in fails if r not in unwind_fails]
    job.failed = [(r.get('property'), r.get('description'), r.get('trace', []),
                   r.get('sourceLocation', {})) for r in real_fails]
    job.unwind_failed = [(r.get('property'), r.get('description'), r.get('trace', [])) for r in unwind_fails]
    nobody = [r for r in fails if 'no body for callee' in r.get('description', '')]
    if nobody:
        # a function the harness should have supplied: the harness is incomplete, no verdict
        job.status = 'error'
        job.reason = 'harness incomplete: ' + ', '.join(sorted(set(r.get('description', '') for r in nobody)))[:300]
        job.failed = []
        return
    undecided = [r for r in results if r.get('status') not in ('SUCCESS', 'FAILURE')]
    job.stats['undecided'] = len(undecided)
    if real_fails:
        job.status = 'failed'
    elif undecided:
        # e.g. status ERROR after "SAT checker ran out of memory": no verdict
        job.status = 'inconclusive'
        why = '; '.join(job.stats.get('errors', []))[:200]
        job.reason = '%d properties without verdict (%s)' % (len(undecided), why or undecided[0].get('status'))
    elif unwind_fails:
        job.status = 'inconclusive'
        job.reason = 'unwinding bound too small: ' + ', '.join(r.get('property', '') for r in unwind_fails)
    else:
        job.status = 'proved'


def run_jobs(jobs, workers=None, progress=None, deadline=None):
    workers = workers or NCPU
    with ThreadPoolExecutor(max_workers=workers) as ex:
        futs = [ex.submit(run_job, j, deadline) for j in jobs]
        for f in futs:
            j = f.result()
            if progress:
                progress(j)
    return jobs


def trace_inputs(trace):
    """Extract nondet inputs from a cbmc json trace: list of (lhs, value)
    for assignments whose value came from a nondet_* call in the harness."""
    vals = []
    for step in trace:
        if step.get('stepType') == 'assignment':
            lhs = step.get('lhs', '')
            v = step.get('value', {})
            vals.append((lhs, v.get('data'), v.get('binary'), step.get('assignmentType'),
                         step.get('sourceLocation', {}).get('function')))
    return vals
