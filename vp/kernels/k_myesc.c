/* E5 kernel: misc.c:myesc() on an arbitrary escape sequence.
 * Manual ("Patterns"): \b \f \n \r \t \a \v are the ANSI-C control
 * characters, \123 is the character with octal value 123 (one to three octal
 * digits), \x2a the character with hexadecimal value 2a (one or two hex
 * digits), any other \X is X itself.  The text must be left unchanged. */
#include "vp_harness.h"
#include <stdarg.h>
#define main vp_flex_real_main
#include "main.c"
#undef main
#include "misc.c"

void lerr_dummy(void) {}
#include "vp_libc_models.h"

unsigned char vpi_s[6];

static int vp_oct(int c) { return c >= '0' && c <= '7'; }
static int vp_hexv(int c) {
  if (c >= '0' && c <= '9') return c - '0';
  if (c >= 'a' && c <= 'f') return c - 'a' + 10;
  if (c >= 'A' && c <= 'F') return c - 'A' + 10;
  return -1;
}

int main(void) {
#ifdef REPLAY
#include "vp_replay_set.inc"
#else
  for (int i = 0; i < 6; i++) vpi_s[i] = nondet_uchar();
#endif
  unsigned char a[6], save[6];
  for (int i = 0; i < 6; i++) save[i] = a[i] = vpi_s[i];
  VP_ASSUME(a[0] == '\\');
  VP_ASSUME(a[5] == 0);                       /* the scanner always passes NUL-terminated yytext */
  VP_ASSUME(a[1] != 0);
  unsigned want;
  int c = a[1];
  switch (c) {
  case 'b': want = 8; break;
  case 'f': want = 12; break;
  case 'n': want = 10; break;
  case 'r': want = 13; break;
  case 't': want = 9; break;
  case 'a': want = 7; break;
  case 'v': want = 11; break;
  default:
    if (vp_oct(c)) {
      want = c - '0';
      if (vp_oct(a[2])) { want = want * 8 + (a[2] - '0'); if (vp_oct(a[3])) want = want * 8 + (a[3] - '0'); }
      want &= 0xff;
    } else if (c == 'x' && vp_hexv(a[2]) >= 0) {
      want = vp_hexv(a[2]);
      if (vp_hexv(a[3]) >= 0) want = want * 16 + vp_hexv(a[3]);
    } else if (c == 'x') {
      /* "\x" without digits: not in the documented syntax; the scanner never
       * produces it as an escape with a value -- outside the claim */
      VP_ASSUME(0);
      want = 0;
    } else want = c;
  }
  unsigned got = myesc(a);
  VP_ASSERT(got == want, "escape sequence denotes the documented character");
  for (int i = 0; i < 6; i++) VP_ASSERT(a[i] == save[i], "pattern text left unchanged");
#ifdef VP_WITNESS
  VP_ASSERT(!(c == '3' && want == 255), "WITNESS: \\377 reachable");
#endif
  return 0;
}
