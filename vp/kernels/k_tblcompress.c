/* E5 kernel: tables.c width compression of a serialized table
 * (yytbl_data_compress / min_int_size / yytbl_data_geti / _seti).
 * A table of VP_LEN symbolic 32-bit elements is narrowed to the smallest of
 * 8/16/32 bits that holds every element; every element must read back
 * unchanged (sign included) and the width recorded in td_flags must be the
 * documented one. */
#include "vp_harness.h"
#include <stdarg.h>
#define main vp_flex_real_main
#include "main.c"
#undef main
#include "vp_libc_models.h"
#include "tables_shared.c"
#include "tables.c"
#ifndef VP_LEN
#define VP_LEN 3
#endif
void flexerror(const char *msg) { VP_ASSERT(0, "flexerror not expected"); VP_END_PATH(); }
void flexfatal(const char *msg) { VP_ASSERT(0, "flexfatal not expected"); VP_END_PATH(); }
void lerr(const char *msg, ...) { VP_ASSERT(0, "lerr not expected"); VP_END_PATH(); }
void lerr_fatal(const char *msg, ...) { VP_ASSERT(0, "lerr_fatal not expected (negative compression?)"); VP_END_PATH(); }
int vpi_v[VP_LEN];
int main(void) {
#ifdef REPLAY
#include "vp_replay_set.inc"
#else
  for (int i = 0; i < VP_LEN; i++) vpi_v[i] = nondet_int();
#endif
  for (int i = 0; i < VP_LEN; i++) VP_ASSUME(vpi_v[i] > -2147483647);
  struct yytbl_data t;
  yytbl_data_init(&t, YYTD_ID_ACCEPT);
  t.td_flags = YYTD_DATA32;
  t.td_hilen = 0; t.td_lolen = VP_LEN;
  flex_int32_t *d = (flex_int32_t *)calloc(VP_LEN, sizeof(flex_int32_t));
  VP_ASSUME(d != 0);
  for (int i = 0; i < VP_LEN; i++) d[i] = vpi_v[i];
  t.td_data = d;
  int maxabs = 0;
  for (int i = 0; i < VP_LEN; i++) { int a = vpi_v[i] < 0 ? -vpi_v[i] : vpi_v[i]; if (a > maxabs) maxabs = a; }
  yytbl_data_compress(&t);
  int width = (t.td_flags & YYTD_DATA8) ? 1 : (t.td_flags & YYTD_DATA16) ? 2 : (t.td_flags & YYTD_DATA32) ? 4 : 0;
  VP_ASSERT(width == (maxabs <= 127 ? 1 : maxabs <= 32767 ? 2 : 4), "element width is the smallest that holds every element");
  VP_ASSERT(t.td_lolen == VP_LEN && t.td_hilen == 0, "dimensions unchanged");
  for (int i = 0; i < VP_LEN; i++) VP_ASSERT(yytbl_data_geti(&t, i) == vpi_v[i], "every element reads back unchanged after narrowing");
#ifdef VP_WITNESS
  VP_ASSERT(!(width == 2 && vpi_v[0] < 0), "WITNESS: 16-bit table with a negative element");
#endif
  return 0;
}
