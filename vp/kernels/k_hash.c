/* E5 kernel: sym.c:hashfunct() -- the symbol-table hash depends on the bytes
 * of the name only (no pointer, no uninitialised memory enters), and is
 * within the table.  Determinism of name lookup order (C18). */
#include "vp_harness.h"
#include <stdarg.h>
#define main vp_flex_real_main
#include "main.c"
#undef main
#include "vp_libc_models.h"
#include "sym.c"
unsigned char vpi_s[4];
int vpi_size;
int main(void) {
#ifdef REPLAY
#include "vp_replay_set.inc"
#else
  for (int i = 0; i < 4; i++) vpi_s[i] = nondet_uchar();
  vpi_size = nondet_int();
#endif
  VP_ASSUME(vpi_s[3] == 0);
#ifndef VP_SIZE
#define VP_SIZE 101
#endif
  VP_ASSUME(vpi_size == VP_SIZE);      /* the table sizes flex uses are constants (101) */
  char a[4], b[4];
  for (int i = 0; i < 4; i++) { a[i] = (char)vpi_s[i]; b[i] = (char)vpi_s[i]; }
  size_t h1 = hashfunct(a, (size_t)VP_SIZE), h2 = hashfunct(b, (size_t)VP_SIZE);
  VP_ASSERT(h1 == h2, "equal names hash equally wherever they are stored");
  VP_ASSERT(h1 < (size_t)vpi_size, "hash value within the table");
#ifdef VP_WITNESS
  VP_ASSERT(!(h1 == 7 && a[0] && a[1]), "WITNESS: some two-character name hashes to 7");
#endif
  return 0;
}
