/* E5 kernel: the internal limits of the generator are reported, never
 * silently exceeded (C16: "exceeding an internal limit (too many rules, NFA
 * too large ...) is reported the same way").
 *
 * nfa.c:new_rule() and nfa.c:mkstate() are run once from an ARBITRARY table
 * state that satisfies the representation invariant of the growth scheme
 * (capacity = initial + k*increment, count < capacity).  Afterwards either
 * the error routine was called, or the count is within the documented limit
 * and inside the (re)allocated arrays.  One inductive step; covers rule/NFA
 * counts of any size reached by any rule file.
 * Stubs: lerr() records the message and ends the path (the real one exits);
 * reallocate_array() returns a fresh block of exactly the requested size, and
 * the tables start as blocks of exactly the current capacity, so that cbmc's
 * bounds checks decide "every index used lies inside the table". */
#include "vp_harness.h"
#include <stdarg.h>
#define main vp_flex_real_main
#include "main.c"
#undef main
#include "vp_libc_models.h"

static int vp_lerr_called;
static const char *vp_lerr_msg;
void lerr(const char *msg, ...) { vp_lerr_called++; vp_lerr_msg = msg; VP_END_PATH(); }
void flexfatal(const char *msg) { VP_ASSERT(0, "flexfatal not expected"); VP_END_PATH(); }
void flexerror(const char *msg) { VP_ASSERT(0, "flexerror not expected"); VP_END_PATH(); }
void check_char(int c) { }
void mkechar(int tch, int fwd[], int bck[]) { }

static int vp_last_realloc_n;
void *reallocate_array(void *a, int n, size_t sz) {
  vp_last_realloc_n = n;
  VP_ASSERT(n > 0, "table growth requests a positive size");
  void *p = malloc((size_t)n * sz);     /* old contents are irrelevant to the obligations below */
  VP_ASSUME(p != 0);
  return p;
}
static void *vp_table(int n, size_t sz) { void *p = malloc((size_t)n * sz); VP_ASSUME(p != 0); return p; }
#include "nfa.c"

#define VP_RULECAP (MAX_RULE + 3 * MAX_RULES_INCREMENT)

int vpi_num_rules, vpi_kr, vpi_lastnfa, vpi_kn, vpi_sym, vpi_which;

int main(void) {
#ifdef REPLAY
#include "vp_replay_set.inc"
#else
  vpi_num_rules = nondet_int(); vpi_kr = nondet_int(); vpi_lastnfa = nondet_int(); vpi_kn = nondet_int();
  vpi_sym = nondet_int(); vpi_which = nondet_int();
#endif
  memset(&ctrl, 0, sizeof ctrl);
  ctrl.csize = 256;
#ifndef VP_WHICH
#define VP_WHICH 0
#endif
  VP_ASSUME(vpi_which == VP_WHICH);       /* one function per query */
  if (vpi_which == 0) {
    /* rule table: capacity 100 + 100*k, 0 <= num_rules < capacity, and no error so far */
    VP_ASSUME(vpi_kr >= 0 && vpi_kr <= (VP_RULECAP - INITIAL_MAX_RULES) / MAX_RULES_INCREMENT - 1);
    current_max_rules = INITIAL_MAX_RULES + vpi_kr * MAX_RULES_INCREMENT;
    VP_ASSUME(vpi_num_rules >= 0 && vpi_num_rules < current_max_rules && vpi_num_rules <= MAX_RULE);
    /* capacity grows only when the count reaches it */
    VP_ASSUME(current_max_rules - vpi_num_rules <= MAX_RULES_INCREMENT || vpi_kr == 0);
    num_rules = vpi_num_rules;
    rule_type = vp_table(current_max_rules, sizeof(int)); rule_linenum = vp_table(current_max_rules, sizeof(int));
    rule_useful = vp_table(current_max_rules, 1); rule_has_nl = vp_table(current_max_rules, 1);
    new_rule();
    /* reached only if lerr() was not called */
    VP_ASSERT(num_rules == vpi_num_rules + 1, "one more rule");
    VP_ASSERT(num_rules <= MAX_RULE, "a rule number above the limit is reported (too many rules), never accepted silently");
    VP_ASSERT(num_rules < current_max_rules, "rule tables hold the new rule");
#ifdef VP_WITNESS
    VP_ASSERT(!(num_rules == MAX_RULE), "WITNESS: the last legal rule number is accepted");
#endif
  } else {
    VP_ASSUME(vpi_kn >= 0 && vpi_kn <= (MAXIMUM_MNS - INITIAL_MNS) / MNS_INCREMENT);
    current_mns = INITIAL_MNS + vpi_kn * MNS_INCREMENT;
    maximum_mns = MAXIMUM_MNS;
    VP_ASSUME(current_mns < maximum_mns);
    VP_ASSUME(vpi_lastnfa >= 0 && vpi_lastnfa < current_mns);
    VP_ASSUME(current_mns - vpi_lastnfa <= MNS_INCREMENT || vpi_kn == 0);
    VP_ASSUME(vpi_sym >= -10 && vpi_sym <= SYM_EPSILON);
    lastnfa = vpi_lastnfa;
    firstst = vp_table(current_mns, sizeof(int)); lastst = vp_table(current_mns, sizeof(int)); finalst = vp_table(current_mns, sizeof(int));
    transchar = vp_table(current_mns, sizeof(int)); trans1 = vp_table(current_mns, sizeof(int)); trans2 = vp_table(current_mns, sizeof(int));
    accptnum = vp_table(current_mns, sizeof(int)); assoc_rule = vp_table(current_mns, sizeof(int)); state_type = vp_table(current_mns, sizeof(int));
    int s = mkstate(vpi_sym);
    VP_ASSERT(s == vpi_lastnfa + 1 && lastnfa == s, "states are made in ascending order");
    VP_ASSERT(lastnfa < current_mns, "NFA tables hold the new state");
    VP_ASSERT(current_mns < maximum_mns, "an NFA larger than the limit is reported (input rules are too complicated), never accepted silently");
    VP_ASSERT(transchar[s] == vpi_sym && trans1[s] == NO_TRANSITION && trans2[s] == NO_TRANSITION && firstst[s] == s && lastst[s] == s && finalst[s] == s, "new state initialised");
#ifdef VP_WITNESS
    VP_ASSERT(!(vp_last_realloc_n > 0), "WITNESS: the NFA tables grow");
#endif
  }
  return 0;
}
