/* E5 kernel: main.c:check_options() on a fully symbolic option record.
 * The assertion is the manual's incompatibility matrix (doc/flex.texi:
 * "Options Affecting Scanner Behavior", "Code-Level And API Options",
 * "Options for Scanner Speed and Size"), not a copy of the code under test. */
#include "vp_harness.h"
#include <stdarg.h>
#define main vp_flex_real_main
#define freopen vp_freopen
static FILE *vp_freopen(const char *path, const char *mode, FILE *stream);
#include "main.c"
#undef main
#undef freopen

static int vp_expect_error, vp_warned, vp_freopen_failed, vp_use_stdout0;
static const char *vp_msg;

/* ---- stubs for the rest of flex (recorded in evidence.assumptions) ---- */
void flexerror(const char *msg) {
  vp_msg = msg;
  VP_ASSERT(vp_expect_error, "check_options raises an error only for a documented incompatibility");
  VP_END_PATH();
}
void flexfatal(const char *msg) { VP_ASSERT(0, "flexfatal not expected in check_options"); VP_END_PATH(); }
void lerr(const char *msg, ...) {
  VP_ASSERT(vp_freopen_failed && !vp_use_stdout0, "lerr only when the output file cannot be created");
  VP_END_PATH();
}
void lerr_fatal(const char *msg, ...) { VP_ASSERT(0, "lerr_fatal not expected"); VP_END_PATH(); }
void lwarn(const char *msg) { vp_warned++; }
const char *suffix(void) { return "c"; }
int vpi_freopen_ok;
static int vp_dummy_file;
static FILE *vp_freopen(const char *path, const char *mode, FILE *stream) {
  if (vpi_freopen_ok) return (FILE *)&vp_dummy_file;
  vp_freopen_failed = 1; return (FILE *)0;
}
#include "vp_libc_models.h"
#ifndef REPLAY
int snprintf(char *s, size_t n, const char *fmt, ...) { if (n) s[0] = 0; return 0; }
#endif

/* inputs */
unsigned char vpi_b[16];   /* booleans of the record */
int vpi_csize, vpi_interactive;

int main(void) {
#ifdef REPLAY
#include "vp_replay_set.inc"
#else
  for (int i = 0; i < 16; i++) vpi_b[i] = nondet_uchar();
  vpi_csize = nondet_int(); vpi_interactive = nondet_int(); vpi_freopen_ok = nondet_int();
#endif
  for (int i = 0; i < 16; i++) VP_ASSUME(vpi_b[i] <= 1);
  VP_ASSUME(vpi_csize == trit_unspecified || vpi_csize == 128 || vpi_csize == 256);
  VP_ASSUME(vpi_interactive == trit_unspecified || vpi_interactive == trit_true || vpi_interactive == trit_false);
  memset(&ctrl, 0, sizeof ctrl);
  memset(&env, 0, sizeof env);
  ctrl.prefix = "yy";
  int lex = ctrl.lex_compat = vpi_b[0];
  int cxx = ctrl.C_plus_plus = vpi_b[1];
  int ftbl = ctrl.fulltbl = vpi_b[2];
  int fspd = ctrl.fullspd = vpi_b[3];
  int reent = ctrl.reentrant = vpi_b[4];
  int bison = ctrl.bison_bridge_lval = vpi_b[5];
  int ecs = ctrl.useecs = vpi_b[6];
  int mecs = ctrl.usemecs = vpi_b[7];
  int arr = ctrl.yytext_is_array = vpi_b[8];
  ctrl.do_yylineno = vpi_b[9];
  ctrl.use_read = vpi_b[10];
  env.use_stdout = vp_use_stdout0 = vpi_b[11];
  env.did_outfilename = vpi_b[12];
  env.outfilename = "out.c";
  ctrl.csize = vpi_csize;
  ctrl.interactive = (trit)vpi_interactive;
  int full = ftbl || fspd;

  /* The documented incompatibilities:
   *  -l  with -+, with -f/-F (-Cf/-CF), with --reentrant or --bison-bridge
   *  -Cf/-CF with -Cm, with -I (an explicitly interactive scanner), with each other
   *  -+  with -CF, with --reentrant, with --bison-bridge */
  vp_expect_error =
      (lex && (cxx || full || reent || bison)) ||
      (full && (mecs || vpi_interactive == trit_true || (ftbl && fspd))) ||
      (cxx && (fspd || reent || bison));

  check_options();

  VP_ASSERT(!vp_expect_error, "a documented incompatibility is refused with an error");
  /* documented defaults and overrides */
  if (lex) {
    VP_ASSERT(ctrl.yytext_is_array && ctrl.do_yylineno && !ctrl.use_read, "-l implies %array, yylineno and stdio input");
  }
  if (vpi_csize == trit_unspecified)
    VP_ASSERT(ctrl.csize == ((full && !ecs) ? 128 : 256), "default character set: 7 bit only for -Cf/-CF without equivalence classes");
  else
    VP_ASSERT(ctrl.csize == vpi_csize, "explicit -7/-8 respected");
  if (vpi_interactive == trit_unspecified)
    VP_ASSERT(ctrl.interactive == (full ? trit_false : trit_true), "default: interactive unless -Cf/-CF");
  else
    VP_ASSERT(ctrl.interactive == (trit)vpi_interactive, "explicit -I/-B respected");
  if (cxx && arr && !lex) {
    VP_ASSERT(vp_warned > 0 && !ctrl.yytext_is_array, "%array with C++ is overridden with a warning");
  } else if (!lex) {
    VP_ASSERT((ctrl.yytext_is_array != 0) == (arr != 0), "%array/%pointer respected");
  }
  /* equivalence-class lists are initialised for the chosen character set */
  if (ecs) {
    VP_ASSERT(ecgroup[1] == NIL && nextecm[ctrl.csize] == NIL, "equivalence class list ends");
    VP_ASSERT(ecgroup[ctrl.csize] == ctrl.csize - 1 && nextecm[1] == 2, "equivalence class list links");
  } else {
    VP_ASSERT(ecgroup[1] == 1 && ecgroup[ctrl.csize] == ctrl.csize, "every character its own class");
  }
#ifdef VP_WITNESS
  VP_ASSERT(!(lex && ctrl.yytext_is_array && ecs), "WITNESS: accepted lex-compat configuration");
#endif
  return 0;
}
