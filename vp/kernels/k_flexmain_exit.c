/* E5 kernel: the exit path of main.c:flex_main() -- the code that runs after
 * FLEX_EXIT()/longjmp: it closes stdout, waits for every child of the filter
 * chain and computes the process exit status.  setjmp() is a stub that
 * returns an arbitrary non-zero value (status+1), so exactly that path runs;
 * wait(), ferror(), fflush(), fclose() return arbitrary results.
 * Property (C16): the status returned is 0 only if flex asked for status 0
 * AND every child exited normally with status 0. */
#include "vp_harness.h"
#include <stdarg.h>
#include <setjmp.h>
#include <sys/wait.h>
int vpi_jmp, vpi_nchild, vpi_status[3], vpi_ferr, vpi_closed;
static int vp_waits, vp_child_bad;
#ifndef VP_JMP
#define VP_JMP 1
#endif
/* concrete per query, so that symbolic execution takes only the exit path */
static int vp_setjmp(void) { return VP_JMP; }
static int vp_wait(int *st) {
  if (vp_waits >= vpi_nchild) return -1;
  int s = vpi_status[vp_waits++];
  if (!WIFEXITED(s) || WEXITSTATUS(s) != 0) vp_child_bad = 1;
  if (st) *st = s;
  return 100 + vp_waits;
}
static int vp_ferror(FILE *f) { return vpi_ferr; }
static int vp_fflush(FILE *f) { return 0; }
static int vp_fclose(FILE *f) { return 0; }
#define main vp_flex_real_main
#undef setjmp
#define setjmp(b) vp_setjmp()
#define wait vp_wait
#define ferror vp_ferror
#define fflush vp_fflush
#define fclose vp_fclose
#include "main.c"
#undef main
#include "vp_libc_models.h"

void flexerror(const char *msg) { VP_ASSERT(0, "not reached"); VP_END_PATH(); }
void flexfatal(const char *msg) { VP_ASSERT(0, "not reached"); VP_END_PATH(); }
void lerr(const char *msg, ...) { VP_ASSERT(0, "not reached"); VP_END_PATH(); }
void lerr_fatal(const char *msg, ...) { VP_ASSERT(0, "not reached"); VP_END_PATH(); }

int main(void) {
#ifdef REPLAY
#include "vp_replay_set.inc"
#else
  vpi_jmp = nondet_int(); vpi_nchild = nondet_int(); vpi_ferr = nondet_int(); vpi_closed = nondet_int();
  for (int i = 0; i < 3; i++) vpi_status[i] = nondet_int();
#endif
  VP_ASSUME(vpi_jmp == VP_JMP);                      /* FLEX_EXIT(n) arrives as n+1 */
  VP_ASSUME(vpi_nchild >= 0 && vpi_nchild <= 3);
  VP_ASSUME((vpi_ferr == 0 || vpi_ferr == 1) && (vpi_closed == 0 || vpi_closed == 1));
  _stdout_closed = vpi_closed;
  char *argv[] = { "flex", 0 };
  int rc = flex_main(1, argv);
  VP_ASSERT(vp_waits == vpi_nchild, "every child of the filter chain is waited for");
  VP_ASSERT(rc != 0 || (vpi_jmp == 1 && !vp_child_bad), "exit status 0 only if flex finished with status 0 and every filter child succeeded");
  VP_ASSERT(vpi_jmp == 1 || rc != 0, "a non-zero internal status is never turned into 0");
#ifdef VP_WITNESS
  VP_ASSERT(!(rc == 0 && vpi_nchild == 3), "WITNESS: clean exit after three children");
#endif
  return 0;
}
