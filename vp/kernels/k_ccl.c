/* E5 kernel: ccl.c class algebra on symbolic classes.
 * Classes A and B each get up to VP_NMEM symbolic members (duplicates allowed)
 * and a symbolic negation flag; D = A {-} B or A {+} B.  For every character
 * of the (small) alphabet, membership in D must equal the set expression, and
 * ccl_has_nl must say whether a class can match a newline. */
#include "vp_harness.h"
#include <stdarg.h>
#define main vp_flex_real_main
#include "main.c"
#undef main
#include "ccl.c"

#ifndef VP_CSIZE
#define VP_CSIZE 16
#endif
#ifndef VP_NMEM
#define VP_NMEM 3
#endif

void flexerror(const char *msg) { VP_ASSERT(0, "flexerror not expected"); VP_END_PATH(); }
void flexfatal(const char *msg) { VP_ASSERT(0, "flexfatal not expected"); VP_END_PATH(); }
void lerr(const char *msg, ...) { VP_ASSERT(0, "lerr not expected"); VP_END_PATH(); }
void check_char(int c) { VP_ASSERT(c >= 0 && c < ctrl.csize, "character within the scanner's character set"); }
void *reallocate_array(void *a, int n, size_t sz) { VP_ASSERT(0, "table growth is outside the bound of this kernel"); VP_END_PATH(); return a; }
#include "vp_libc_models.h"

unsigned char vpi_a[VP_NMEM], vpi_b[VP_NMEM];
int vpi_na, vpi_nb, vpi_nega, vpi_negb, vpi_op;

static int vp_member(int cclp, int ch) {
  int in = 0;
  for (int i = 0; i < 2 * VP_CSIZE; i++) {
    if (i >= ccllen[cclp]) break;
    if (ccltbl[cclmap[cclp] + i] == ch) in = 1;
  }
  return cclng[cclp] ? !in : in;
}

static int vp_cclmap[8], vp_ccllen[8], vp_cclng[8];
static char vp_has_nl[8];
static unsigned char vp_ccltbl[8 * VP_CSIZE];

int main(void) {
#ifdef REPLAY
#include "vp_replay_set.inc"
#else
  for (int i = 0; i < VP_NMEM; i++) { vpi_a[i] = nondet_uchar(); vpi_b[i] = nondet_uchar(); }
  vpi_na = nondet_int(); vpi_nb = nondet_int(); vpi_nega = nondet_int(); vpi_negb = nondet_int(); vpi_op = nondet_int();
#endif
  VP_ASSUME(vpi_na >= 0 && vpi_na <= VP_NMEM && vpi_nb >= 0 && vpi_nb <= VP_NMEM);
  VP_ASSUME((vpi_nega == 0 || vpi_nega == 1) && (vpi_negb == 0 || vpi_negb == 1) && (vpi_op == 0 || vpi_op == 1));
  for (int i = 0; i < VP_NMEM; i++) VP_ASSUME(vpi_a[i] < VP_CSIZE && vpi_b[i] < VP_CSIZE);
  memset(&ctrl, 0, sizeof ctrl);
  ctrl.csize = VP_CSIZE;
  /* the tables as set_up_initial_allocations() leaves them, with fixed room */
  cclmap = vp_cclmap; ccllen = vp_ccllen; cclng = vp_cclng; ccl_has_nl = vp_has_nl; ccltbl = vp_ccltbl;
  current_maxccls = 8; current_max_ccl_tbl_size = 8 * VP_CSIZE; lastccl = 0;

  int a = cclinit();
  for (int i = 0; i < VP_NMEM; i++) if (i < vpi_na) ccladd(a, vpi_a[i]);
  if (vpi_nega) cclnegate(a);
  int b = cclinit();
  for (int i = 0; i < VP_NMEM; i++) if (i < vpi_nb) ccladd(b, vpi_b[i]);
  if (vpi_negb) cclnegate(b);
  VP_ASSERT(ccl_has_nl[a] == (vp_member(a, '\n') != 0), "ccl_has_nl of an operand says whether it contains newline");
  VP_ASSERT(ccl_has_nl[b] == (vp_member(b, '\n') != 0), "ccl_has_nl of an operand says whether it contains newline (2)");
  int d = vpi_op ? ccl_set_union(a, b) : ccl_set_diff(a, b);
  for (int ch = 0; ch < VP_CSIZE; ch++) {
    int ma = vp_member(a, ch), mb = vp_member(b, ch), md = vp_member(d, ch);
    if (vpi_op) VP_ASSERT(md == (ma || mb), "A{+}B contains exactly the characters of A or B");
    else VP_ASSERT(md == (ma && !mb), "A{-}B contains exactly the characters of A not in B");
  }
  VP_ASSERT(ccl_has_nl[d] == (vp_member(d, '\n') != 0), "ccl_has_nl of the result says whether it contains newline");
  VP_ASSERT(d == lastccl && d != a && d != b, "result is a new class");
#ifdef VP_WITNESS
  VP_ASSERT(!(vpi_op == 1 && vpi_nega == 1 && vpi_na == VP_NMEM && vp_member(d, 0)), "WITNESS: union with a negated operand is reachable");
#endif
  return 0;
}
