/* E5 kernel: misc.c:line_directive_out() on an arbitrary file name.
 * The directive text queued for the m4 pass must carry the given line number
 * and the file name with every backslash and double quote escaped, and no
 * write may leave the local buffers (cbmc bounds/pointer checks are on). */
#include "vp_harness.h"
#include <stdarg.h>
#define main vp_flex_real_main
#include "main.c"
#undef main
#include "vp_libc_models.h"
static char vp_out[600];     /* serves as flex's action_array: directives are queued there */
#ifndef REPLAY
/* snprintf model for the one format used: "...%d...%s..." */
int snprintf(char *s, size_t n, const char *fmt, ...) {
  va_list ap; va_start(ap, fmt);
  size_t o = 0;
  for (int i = 0; i < 200 && fmt[i]; i++) {
    if (fmt[i] == '%' && fmt[i + 1] == 'd') {
      int v = va_arg(ap, int); char d[12]; int k = 0;
      if (v == 0) d[k++] = '0';
      for (int q = 0; q < 10 && v > 0; q++) { d[k++] = (char)('0' + v % 10); v /= 10; }
      for (int q = 0; q < 11; q++) if (k > 0) { if (o + 1 < n) s[o] = d[--k]; else --k; o++; }
      i++;
    } else if (fmt[i] == '%' && fmt[i + 1] == 's') {
      const char *p = va_arg(ap, const char *);
      for (int q = 0; q < 32 && p[q]; q++) { if (o + 1 < n) s[o] = p[q]; o++; }
      i++;
    } else { if (o + 1 < n) s[o] = fmt[i]; o++; }
  }
  if (n) s[o < n ? o : n - 1] = 0;
  va_end(ap);
  return (int)o;
}
#endif
#include "misc.c"

unsigned char vpi_path[7];
int vpi_line;

int main(void) {
#ifdef REPLAY
#include "vp_replay_set.inc"
#else
  for (int i = 0; i < 7; i++) vpi_path[i] = nondet_uchar();
  vpi_line = nondet_int();
#endif
  VP_ASSUME(vpi_path[6] == 0 && vpi_path[0] != 0);
  VP_ASSUME(vpi_line >= 0 && vpi_line <= 99999);
  memset(&ctrl, 0, sizeof ctrl);
  ctrl.gen_line_dirs = true;
  char path[7];
  for (int i = 0; i < 7; i++) path[i] = (char)vpi_path[i];
  action_array = vp_out; action_size = (int)sizeof vp_out; action_index = 0;
  line_directive_out(NULL, path, vpi_line);
  VP_ASSERT(action_index > 0, "one directive queued");
  /* expected escaped name */
  char want[16]; int w = 0;
  for (int i = 0; i < 6 && path[i]; i++) { if (path[i] == '\\' || path[i] == '"') want[w++] = '\\'; want[w++] = path[i]; }
  want[w] = 0;
  /* the directive ends with  [[<name>]])]])  */
  int L = 0; for (; L < (int)sizeof vp_out && vp_out[L]; L++) ;
  VP_ASSERT(L > w + 7, "directive text present");
  int tail = L - 7 - w;
  for (int i = 0; i < 12; i++) if (i < w) VP_ASSERT(vp_out[tail + i] == want[i], "file name appears with backslash and quote escaped");
  VP_ASSERT(vp_out[L - 1] == ')' && vp_out[L - 7] == ']', "directive is well formed");
  ctrl.gen_line_dirs = false; action_index = 0;
  line_directive_out(NULL, path, vpi_line);
  VP_ASSERT(action_index == 0, "-L / %option noline: nothing is queued");
#ifdef VP_WITNESS
  VP_ASSERT(!(path[0] == '"' && path[1] == '\\'), "WITNESS: name needing two escapes");
#endif
  return 0;
}
