/* E5 kernel: filter.c:filter_tee_header() -- the process that writes the
 * scanner's C branch and the --header-file branch.  Every stdio/wait result
 * is an arbitrary value within its documented contract.  Property (C16):
 * the process exits with status 0 only if no write/close failed and every
 * child it waited for succeeded; a non-zero exit caused by its own failure
 * comes after a diagnostic. */
#include "vp_harness.h"
#include <stdarg.h>
#define main vp_flex_real_main
#include "main.c"
#undef main
#include "vp_libc_models.h"

static int vp_bad, vp_diag, vp_exited, vp_waits;
static int vp_file_c, vp_file_h, vp_stdin_obj;

/* inputs */
int vpi_header, vpi_ferr_h, vpi_ferr_c, vpi_fclose_h, vpi_fclose_c, vpi_nchild, vpi_lines, vpi_dup_ok, vpi_freopen_ok;
int vpi_status[3];

static int vp_dup(int fd) { return vpi_dup_ok ? 7 : -1; }
static FILE *vp_fdopen(int fd, const char *m) { return (FILE *)&vp_file_c; }
static FILE *vp_freopen(const char *p, const char *m, FILE *f) { return vpi_freopen_ok ? f : (FILE *)0; }
static int vp_fputs(const char *s, FILE *f) { return 0; }
static int vp_fprintf(FILE *f, const char *fmt, ...) { return 0; }
static int vp_lines_left;
static char *vp_fgets(char *b, int n, FILE *f) { if (vp_lines_left <= 0) return 0; vp_lines_left--; b[0] = 'x'; b[1] = 0; return b; }
static int vp_fflush(FILE *f) { return 0; }
static int vp_is_h(FILE *f) { return f != (FILE *)&vp_file_c; }
static int vp_ferror(FILE *f) { int r = vp_is_h(f) ? vpi_ferr_h : vpi_ferr_c; if (r) vp_bad = 1; return r; }
static int vp_fclose(FILE *f) { int r = vp_is_h(f) ? vpi_fclose_h : vpi_fclose_c; if (r) vp_bad = 1; return r; }
static int vp_wait(int *st) {
  if (vp_waits >= vpi_nchild) return -1;
  int s = vpi_status[vp_waits++];
  if (!WIFEXITED(s) || WEXITSTATUS(s) != 0) vp_bad = 1;
  if (st) *st = s;
  return 100 + vp_waits;
}
static void vp_exit(int status) {
  vp_exited = 1;
  VP_ASSERT(status != 0 || !vp_bad, "exit status 0 only if every write, close and child succeeded");
  VP_ASSERT(status == 0 || vp_diag || vp_waits > 0, "own failure is reported with a diagnostic before a non-zero exit");
  VP_END_PATH();
}
#define dup vp_dup
#define fdopen vp_fdopen
#define freopen vp_freopen
#define fputs vp_fputs
#define fprintf vp_fprintf
#define fgets vp_fgets
#define fflush vp_fflush
#define ferror vp_ferror
#define fclose vp_fclose
#define wait vp_wait
#undef FLEX_EXIT
#define FLEX_EXIT(status) vp_exit(status)
#include "filter.c"

void flexerror(const char *msg) { vp_diag = 1; vp_exit(1); }
void flexfatal(const char *msg) { vp_diag = 1; vp_exit(1); }
void lerr(const char *msg, ...) { vp_diag = 1; vp_exit(1); }
void lerr_fatal(const char *msg, ...) { vp_diag = 1; vp_exit(1); }
void line_directive_out(FILE *f, char *path, int linenum) {}

int main(void) {
#ifdef REPLAY
#include "vp_replay_set.inc"
#else
  vpi_header = nondet_int(); vpi_ferr_h = nondet_int(); vpi_ferr_c = nondet_int(); vpi_fclose_h = nondet_int(); vpi_fclose_c = nondet_int();
  vpi_nchild = nondet_int(); vpi_lines = nondet_int(); vpi_dup_ok = nondet_int(); vpi_freopen_ok = nondet_int();
  for (int i = 0; i < 3; i++) vpi_status[i] = nondet_int();
#endif
  VP_ASSUME(vpi_nchild >= 0 && vpi_nchild <= 3 && vpi_lines >= 0 && vpi_lines <= 2);
  VP_ASSUME((vpi_header | vpi_ferr_h | vpi_ferr_c | vpi_dup_ok | vpi_freopen_ok) >> 1 == 0);
  vp_lines_left = vpi_lines;
  struct filter f;
  memset(&f, 0, sizeof f);
  f.extra = vpi_header ? "out.h" : 0;
  f.next = 0;
  memset(&ctrl, 0, sizeof ctrl); memset(&env, 0, sizeof env);
  filter_tee_header(&f);
  VP_ASSERT(vp_exited, "the filter process terminates through FLEX_EXIT");
  return 0;
}
