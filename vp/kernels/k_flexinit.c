/* E5 kernel: main.c:flexinit() -- the command-line option dispatch -- on a SYMBOLIC
 * sequence of K options.  scanopt() (the argv tokenizer) is replaced by a stub that
 * hands out K solver-chosen option codes; for -C the argument is a solver-chosen
 * string of up to 2 characters.  The assertion is the manual's description of each
 * option ("Scanner Options" chapter), folded over the sequence in table form:
 *   - every option sets its own documented field, the last occurrence wins;
 *   - -C options are cumulative: the compression letters in effect are the union of
 *     the letters of all -C options given (and replace the default -Cem);
 *   - -f is -Cfr, -F is -CFr, --main implies --noyywrap;
 *   - an unknown -C letter is an error.
 * K and the argument length are the bounds (VP_K, 2).                              */
#include "vp_harness.h"
#include <stdarg.h>
#define main vp_flex_real_main
#include "main.c"
#undef main
#include "scanflags.c"
#include "vp_libc_models.h"

#ifndef VP_K
#define VP_K 3
#endif

/* ---- inputs ---- */
int vpi_opt[VP_K];
unsigned char vpi_carg[VP_K][3];

/* ---- stubs (recorded in evidence.assumptions) ---- */
static int vp_pos, vp_lerr, vp_expect_lerr;
static char vp_argbuf[VP_K][3];
static char vp_dummy_arg[2] = "x";
static int vp_sopt_dummy;
scanopt_t *scanopt_init(const optspec_t *options, int argc, char **argv, int flags) { return (scanopt_t *)&vp_sopt_dummy; }
int scanopt_destroy(scanopt_t *s) { return 0; }
int scanopt(scanopt_t *s, char **optarg, int *optindex) {
  if (vp_pos >= VP_K) { *optindex = 1; return 0; }
  int i = vp_pos++;
  *optarg = (vpi_opt[i] == OPT_COMPRESSION) ? vp_argbuf[i] : vp_dummy_arg;
  return vpi_opt[i];
}
void lerr(const char *msg, ...) { vp_lerr++; VP_ASSERT(vp_expect_lerr, "lerr only for an unknown -C letter"); VP_END_PATH(); }
void lerr_fatal(const char *msg, ...) { VP_ASSERT(0, "lerr_fatal not expected"); VP_END_PATH(); }
void flexerror(const char *msg) { VP_ASSERT(0, "flexerror not expected in flexinit"); VP_END_PATH(); }
void flexfatal(const char *msg) { VP_ASSERT(0, "flexfatal not expected in flexinit"); VP_END_PATH(); }
void lwarn(const char *msg) {}
void *allocate_array(int size, size_t element_size) { void *p = malloc((size_t)size * element_size); VP_ASSUME(p != 0); return p; }
void *reallocate_array(void *array, int size, size_t element_size) { void *p = realloc(array, (size_t)size * element_size); VP_ASSUME(p != 0); return p; }
struct Buf userdef_buf, top_buf;     /* defined in buf.c, which is not part of this kernel */
void buf_init(struct Buf *buf, size_t elem_size) { buf->elts = 0; buf->nelts = 0; buf->elt_size = elem_size; buf->nmax = 0; }
struct Buf *buf_strappend(struct Buf *buf, const char *str) { return buf; }
void set_input_file(char *file) {}
const char *suffix(void) { return "c"; }
#ifndef REPLAY
int snprintf(char *s, size_t n, const char *fmt, ...) { if (n) s[0] = 0; return 0; }
int fprintf(FILE *f, const char *fmt, ...) { return 0; }
int printf(const char *fmt, ...) { return 0; }
long strtol(const char *s, char **e, int b) { return 0; }   /* --preproc=NUM: value not part of the claim */
#endif

/* ---- reference: the manual's per-option effect, table form ---- */
struct ref {
  int ecs, mecs, ftbl, fspd, align, rd;       /* compression letters */
  int sawC, mixed;                            /* a -C was given; table options given in another spelling too */
  int interactive, always_i, never_i, csize, cxx, lex, posix, debug, nodefault, reentrant, blval, blloc;
  int array, lineno, yywrap, domain, stdinit, stack, linedirs, nowarn, more, rej, nounistd, caseins;
  int backup, perf, trace, verbose, use_stdout, tablesverify, hex;
};

static int vp_letter_ok(unsigned char c) { return c == 'a' || c == 'e' || c == 'f' || c == 'F' || c == 'm' || c == 'r'; }

int main(void) {
#ifdef REPLAY
#include "vp_replay_set.inc"
#else
  for (int i = 0; i < VP_K; i++) { vpi_opt[i] = nondet_int(); for (int k = 0; k < 3; k++) vpi_carg[i][k] = nondet_uchar(); }
#endif
  struct ref R;
  memset(&R, 0, sizeof R);
  R.ecs = R.mecs = 1;                          /* default -Cem */
  R.interactive = trit_unspecified; R.csize = trit_unspecified; R.domain = trit_unspecified;
  R.more = trit_unspecified; R.rej = trit_unspecified;
  R.yywrap = 1; R.linedirs = 1;
  int letters[6] = {0, 0, 0, 0, 0, 0};         /* a e f F m r over all -C options */
  vp_expect_lerr = 0;
  for (int i = 0; i < VP_K; i++) {
    int o = vpi_opt[i];
    VP_ASSUME(o >= 1 && o <= OPT_NO_SECT3_ESCAPE);
    /* --help/--version leave through exit(); -D only appends to a text buffer */
    VP_ASSUME(o != OPT_HELP && o != OPT_VERSION && o != OPT_PREPROCDEFINE);
    vpi_carg[i][2] = 0;
    for (int k = 0; k < 3; k++) vp_argbuf[i][k] = (char)vpi_carg[i][k];
    switch (o) {
    case OPT_COMPRESSION:
      R.sawC = 1;
      for (int k = 0; k < 2; k++) {
        unsigned char c = vpi_carg[i][k];
        if (c == 0) break;
        if (!vp_letter_ok(c)) vp_expect_lerr = 1;
        if (c == 'a') letters[0] = 1; if (c == 'e') letters[1] = 1; if (c == 'f') letters[2] = 1;
        if (c == 'F') letters[3] = 1; if (c == 'm') letters[4] = 1; if (c == 'r') letters[5] = 1;
      }
      break;
    /* the same table properties in their other spellings (folded in order; compared only when no -C is mixed in) */
    case OPT_FULL: R.mixed = 1; R.ecs = R.mecs = 0; R.rd = R.ftbl = 1; break;       /* -f is -Cfr */
    case OPT_FAST: R.mixed = 1; R.ecs = R.mecs = 0; R.rd = R.fspd = 1; break;       /* -F is -CFr */
    case OPT_ECS: R.mixed = 1; R.ecs = 1; break;
    case OPT_NO_ECS: R.mixed = 1; R.ecs = 0; break;
    case OPT_META_ECS: R.mixed = 1; R.mecs = 1; break;
    case OPT_NO_META_ECS: R.mixed = 1; R.mecs = 0; break;
    case OPT_ALIGN: R.mixed = 1; R.align = 1; break;
    case OPT_NO_ALIGN: R.mixed = 1; R.align = 0; break;
    case OPT_READ: R.mixed = 1; R.rd = 1; break;
    case OPT_7BIT: R.csize = 128; break;
    case OPT_8BIT: R.csize = 256; break;
    case OPT_BATCH: R.interactive = trit_false; break;
    case OPT_INTERACTIVE: R.interactive = trit_true; break;
    case OPT_ALWAYS_INTERACTIVE: R.always_i = 1; R.interactive = trit_true; break;
    case OPT_NEVER_INTERACTIVE: R.never_i = 1; R.interactive = trit_false; break;
    case OPT_CPLUSPLUS: R.cxx = 1; break;
    case OPT_LEX_COMPAT: R.lex = 1; break;
    case OPT_POSIX_COMPAT: R.posix = 1; break;
    case OPT_DEBUG: R.debug = 1; break;
    case OPT_NO_DEBUG: R.debug = 0; break;
    case OPT_DEFAULT: R.nodefault = 0; break;
    case OPT_NO_DEFAULT: R.nodefault = 1; break;
    case OPT_REENTRANT: R.reentrant = 1; break;
    case OPT_NO_REENTRANT: R.reentrant = 0; break;
    case OPT_BISON_BRIDGE: R.blval = 1; break;
    case OPT_BISON_BRIDGE_LOCATIONS: R.blval = 1; R.blloc = 1; break;
    case OPT_ARRAY: R.array = 1; break;
    case OPT_POINTER: R.array = 0; break;
    case OPT_YYLINENO: R.lineno = 1; break;
    case OPT_NO_YYLINENO: R.lineno = 0; break;
    case OPT_YYWRAP: R.yywrap = 1; break;
    case OPT_NO_YYWRAP: R.yywrap = 0; break;
    case OPT_MAIN: R.domain = trit_true; R.yywrap = 0; break;
    case OPT_NO_MAIN: R.domain = trit_false; break;
    case OPT_STDINIT: R.stdinit = 1; break;
    case OPT_NO_STDINIT: R.stdinit = 0; break;
    case OPT_STACK: R.stack = 1; break;
    case OPT_NO_LINE: R.linedirs = 0; break;
    case OPT_WARN: R.nowarn = 0; break;
    case OPT_NO_WARN: R.nowarn = 1; break;
    case OPT_YYMORE: R.more = trit_true; break;
    case OPT_NO_YYMORE: R.more = trit_false; break;
    case OPT_REJECT: R.rej = trit_true; break;
    case OPT_NO_REJECT: R.rej = trit_false; break;
    case OPT_NO_UNISTD_H: R.nounistd = 1; break;
    case OPT_CASE_INSENSITIVE: R.caseins = 1; break;
    case OPT_BACKUP: case OPT_BACKUP_FILE: R.backup = 1; break;
    case OPT_PERF_REPORT: R.perf++; break;
    case OPT_TRACE: R.trace = 1; break;
    case OPT_VERBOSE: R.verbose = 1; break;
    case OPT_STDOUT: R.use_stdout = 1; break;
    case OPT_TABLES_VERIFY: R.tablesverify = 1; break;
    case OPT_HEX: R.hex = 1; break;
    default: break;
    }
  }
  if (R.sawC && !R.mixed) { R.ecs = letters[1]; R.mecs = letters[4]; R.ftbl = letters[2]; R.fspd = letters[3]; R.align = letters[0]; R.rd = letters[5]; }
#ifdef VP_ONLY_C
  /* deeper bound for the cumulative -C family alone */
  for (int i = 0; i < VP_K; i++) VP_ASSUME(vpi_opt[i] == OPT_COMPRESSION || vpi_opt[i] == OPT_DONOTHING);
#endif

  static char a0[] = "flex", a1[] = "in.l";
  char *argv[3] = {a0, a1, 0};
  flexinit(2, argv);

  VP_ASSERT(!vp_expect_lerr, "an unknown -C letter is reported");
  if (!(R.sawC && R.mixed)) {
    VP_ASSERT((ctrl.useecs != 0) == R.ecs, "-C letters are cumulative over all -C options: e (equivalence classes)");
    VP_ASSERT((ctrl.usemecs != 0) == R.mecs, "-C letters are cumulative over all -C options: m (meta-equivalence classes)");
    VP_ASSERT((ctrl.fulltbl != 0) == R.ftbl, "-C letters are cumulative over all -C options: f (full table)");
    VP_ASSERT((ctrl.fullspd != 0) == R.fspd, "-C letters are cumulative over all -C options: F (fast table)");
    VP_ASSERT((ctrl.long_align != 0) == R.align, "-C letters are cumulative over all -C options: a (alignment)");
    VP_ASSERT((ctrl.use_read != 0) == R.rd, "-C letters are cumulative over all -C options: r (read)");
  }
  VP_ASSERT(ctrl.csize == R.csize, "-7/-8: the last one given wins, unspecified otherwise");
  VP_ASSERT(ctrl.interactive == (trit)R.interactive, "-B/-I/--always-interactive/--never-interactive: the last one given wins");
  VP_ASSERT((ctrl.always_interactive != 0) == R.always_i && (ctrl.never_interactive != 0) == R.never_i, "--always-interactive / --never-interactive recorded");
  VP_ASSERT((ctrl.C_plus_plus != 0) == R.cxx, "-+");
  VP_ASSERT((ctrl.lex_compat != 0) == R.lex && (ctrl.posix_compat != 0) == R.posix, "-l / -X");
  VP_ASSERT((ctrl.ddebug != 0) == R.debug, "-d / --nodebug");
  VP_ASSERT((ctrl.spprdflt != 0) == R.nodefault, "-s / --default");
  VP_ASSERT((ctrl.reentrant != 0) == R.reentrant, "--reentrant / --noreentrant");
  VP_ASSERT((ctrl.bison_bridge_lval != 0) == R.blval && (ctrl.bison_bridge_lloc != 0) == R.blloc, "--bison-bridge / --bison-locations");
  VP_ASSERT((ctrl.yytext_is_array != 0) == R.array, "--array / --pointer");
  VP_ASSERT((ctrl.do_yylineno != 0) == R.lineno, "--yylineno / --noyylineno");
  VP_ASSERT((ctrl.do_yywrap != 0) == R.yywrap, "--yywrap / --noyywrap / --main");
  VP_ASSERT(ctrl.do_main == (trit)R.domain, "--main / --nomain");
  VP_ASSERT((ctrl.do_stdinit != 0) == R.stdinit, "--stdinit / --nostdinit");
  VP_ASSERT((ctrl.stack_used != 0) == R.stack, "--stack");
  VP_ASSERT((ctrl.gen_line_dirs != 0) == R.linedirs, "-L");
  VP_ASSERT((env.nowarn != 0) == R.nowarn, "-w / --warn");
  VP_ASSERT(ctrl.yymore_really_used == (trit)R.more && ctrl.reject_really_used == (trit)R.rej, "--yymore / --reject and their negations");
  VP_ASSERT((ctrl.no_unistd != 0) == R.nounistd, "--nounistd");
  VP_ASSERT((sf_case_ins() != 0) == R.caseins, "-i");
  VP_ASSERT((env.backing_up_report != 0) == R.backup && env.performance_hint == R.perf && (env.trace != 0) == R.trace &&
            (env.printstats != 0) == R.verbose && (env.use_stdout != 0) == R.use_stdout && (tablesverify != 0) == R.tablesverify &&
            (env.trace_hex != 0) == R.hex, "report options -b -p -T -v -t --tables-verify --hex");
#ifdef VP_WITNESS
  VP_ASSERT(!(R.sawC && ctrl.useecs && ctrl.fulltbl && ctrl.long_align), "WITNESS: -Cf -Ce -Ca style accumulation reachable");
#endif
  return 0;
}
