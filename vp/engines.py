"""Engines E1 (first-token step) and E2 (DFA walk): job construction."""
import os
import shutil

from . import cbmc, harness as H


def _prep(ctx, spec, cfg, tag, **genkw):
    """Generate the scanner for (spec,cfg) once per work directory."""
    wd = ctx.subdir('%s__%s__%s' % (spec.name, cfg.name, tag))
    g = H.gen_scanner(ctx.ensure_tree(), wd, spec, cfg, **genkw)
    hdr = os.path.join(wd, 'vp_harness.h')
    if not os.path.exists(hdr):
        shutil.copy(os.path.join(H.HDIR, 'vp_harness.h'), hdr)
    return wd, g


ALLOC_OPTS = ['noyyalloc', 'noyyrealloc', 'noyyfree', 'noyywrap']


def scanner_bounds(g, n, maxnul, refills=0):
    f = H.table_facts(g)
    d = f.get('chain_depth', 0)
    return {
        'chain': d + 2,
        'match': n + 3,
        'goto_match': maxnul + 1 + refills,
        'goto_find_action': 2 + maxnul,
        'goto_find_rule': n + 3,
        'find_rule_for': n + 3,
        'goto_do_action': 2,
        'outer': 2,
        'prevstate': n + 2,
        'move': n + 2,
        'grow': 2,
        'lineno': n + 2,
        'copybytes': n + 2,
        'popall': 3,
        'getc': n + 2,
        'fread': 2,
        'shiftup': n + 4,
        'fn:yy_flex_strncpy': n + 3,
        'fn:yy_flex_strlen': n + 3,
    }


def e1_jobs(ctx, spec, cfg, lengths, maxnul=1, nodefault=False, checks='functional',
            timeout=600, mem_mb=8000, witness_rule=None, tagx='', extra_options=(), g=None, wd=None, source='buffer',
            interior_lengths=()):
    """Per input length n: one job without NUL in the input (tight end-of-buffer bounds), one with a NUL
    budget (NUL transition / 'goto yy_match' inside the step) when maxnul > 0; per interior length one
    job restricted to inputs whose first match attempt jams inside the buffer (no end-of-buffer code).
    Returns (jobs, generated)."""
    if g is None:
        wd, g = _prep(ctx, spec, cfg, 'e1' + tagx, extra_options=ALLOC_OPTS + list(extra_options))
    jobs = []
    if not g.ok:
        return jobs, g
    plan = []
    for n in lengths:
        k = min(maxnul, n)
        if witness_rule or n == 0 or source != 'buffer':
            plan.append((n, k, False))
            continue
        plan.append((n, 0, False))
        if k:
            plan.append((n, k, False))
    for n in interior_lengths:
        if n >= 1 and not witness_rule and source == 'buffer':
            plan.append((n, 0, True))
            if min(maxnul, n):
                plan.append((n, min(maxnul, n), True))
    for n, k, interior in plan:
        it = '_int' if interior else ''
        src = os.path.join(wd, 'e1%s_n%d_k%d%s%s.c' % (tagx, n, k, '_w' if witness_rule else '', it))
        with open(src, 'w') as fh:
            fh.write(H.e1_harness(g, cfg, spec, n, k, nodefault=nodefault, witness=witness_rule, source=source, interior=interior))
        b = scanner_bounds(g, n, k)
        if source == 'buffer' and n > 0:
            # every action returns; yywrap() is not supplied with a further source: the outer loop is not repeated
            b['outer'] = 1
            # yy_scan_buffer source (yy_fill_buffer == 0): a refill never continues the scan; each NUL of the
            # input takes one of the two NUL arms once; the end of the buffer is met at most once, with pending text
            b.update({'goto_match_cont': 1, 'goto_match_nul': 1 + k, 'goto_find_action_nul': 1 + k,
                      'goto_find_action_last': (1 if interior else 2), 'goto_do_action': 1})
        j = cbmc.Job('e1%s_%s_%s_n%d_k%d%s%s' % (tagx, spec.name, cfg.name, n, k, '_w' if witness_rule else '', it),
                     wd, [src], b, includes=[wd, H.HDIR],
                     checks=checks, harness_bound=None, timeout=timeout, mem_mb=mem_mb,
                     gen_file=g.cpath, expect='witness' if witness_rule else 'proved',
                     meta=dict(engine='E1', entry=spec.name, config=cfg.name,
                               bound='len=%d nul<=%d%s' % (n, k, ' interior (match attempt jams inside the buffer)' if interior else ''),
                               flex_input=g.ltext, flex_args=g.args, scanner=os.path.basename(g.cpath)))
        jobs.append(j)
    ctx.functions.update(['yylex', 'yy_get_previous_state', 'yy_try_NUL_trans', 'yy_get_next_buffer',
                          'yy_scan_buffer', 'yy_switch_to_buffer', 'yy_load_buffer_state', 'yyensure_buffer_stack'])
    return jobs, g


def e2_jobs(ctx, spec, cfg, depth, checks='functional', timeout=300, mem_mb=8000, witness=True,
            tagx='', extra_options=(), g=None, wd=None):
    """DFA walk job (+ reachability witness twin)."""
    if g is None:
        wd, g = _prep(ctx, spec, cfg, 'e2' + tagx, extra_options=ALLOC_OPTS + list(extra_options))
    jobs = []
    if not g.ok:
        return jobs, g
    if cfg.table_kind == 'fullspd':
        return jobs, g
    if not H.has_name(g, 'yy_get_previous_state'):
        ctx.record('e2_%s_%s' % (spec.name, cfg.name), 'skipped', reason='internal name yy_get_previous_state absent')
        return jobs, g
    acclist = H.has_name(g, 'yy_acclist')
    variants = [(None, 'proved')]
    if witness:
        variants.append((None, 'witness'))
    for _, expect in variants:
        w = expect == 'witness'
        src = os.path.join(wd, 'e2_d%d%s.c' % (depth, '_w' if w else ''))
        # the witness asks for a live state after a string of length 1 (every
        # scanner has the default rule, so this is always reachable)
        with open(src, 'w') as fh:
            fh.write(H.e2_harness(g, cfg, spec, depth, witness_len=(1 if w else None), use_acclist=acclist))
        b = scanner_bounds(g, depth, 0)
        j = cbmc.Job('e2_%s_%s_d%d%s' % (spec.name, cfg.name, depth, '_w' if w else ''),
                     wd, [src], b, includes=[wd, H.HDIR], checks=checks,
                     harness_bound=None, timeout=timeout, mem_mb=mem_mb, gen_file=g.cpath,
                     expect=expect,
                     meta=dict(engine='E2', entry=spec.name, config=cfg.name,
                               bound='depth<=%d' % depth, flex_input=g.ltext, flex_args=g.args, scanner=os.path.basename(g.cpath)))
        jobs.append(j)
    ctx.functions.update(['yy_get_previous_state', 'yy_scan_buffer'])
    return jobs, g


def e3_jobs(ctx, spec, cfg, ms, bss, tokens=2, witness_first=True, timeout=900, mem_mb=12000,
            extra_options=(), maxnul=1, tagx=''):
    """Refill jobs: one per (stream length m, buffer capacity bs)."""
    wd, g = _prep(ctx, spec, cfg, 'e3' + tagx, extra_options=ALLOC_OPTS + ['never-interactive'] + list(extra_options))
    jobs = []
    if not g.ok:
        return jobs, g
    first = True
    for m in ms:
        for bs in bss:
            variants = [False]
            if witness_first and first and m >= 2:
                variants.append(True)
                first = False
            for w in variants:
                src = os.path.join(wd, 'e3_m%d_b%d%s.c' % (m, bs, '_w' if w else ''))
                with open(src, 'w') as fh:
                    fh.write(H.e3_harness(g, cfg, spec, m, bs, tokens=tokens, witness=w, maxnul=min(maxnul, m)))
                b = scanner_bounds(g, m, min(maxnul, m), refills=m)
                b['grow'] = 3
                b['move'] = m + 2
                j = cbmc.Job('e3_%s_%s_m%d_b%d%s' % (spec.name, cfg.name, m, bs, '_w' if w else ''),
                             wd, [src], b, includes=[wd, H.HDIR], harness_bound=None, timeout=timeout,
                             mem_mb=mem_mb, gen_file=g.cpath, expect='witness' if w else 'proved',
                             meta=dict(engine='E3', entry=spec.name, config=cfg.name,
                                       bound='stream=%d bytes, buffer=%d, tokens<=%d, any read schedule' % (m, bs, tokens),
                                       flex_input=g.ltext, flex_args=g.args))
                jobs.append(j)
    ctx.functions.update(['yylex', 'yy_get_next_buffer', 'yy_get_previous_state', 'yy_try_NUL_trans',
                          'yy_create_buffer', 'yy_init_buffer', 'yy_flush_buffer', 'yyrestart'])
    return jobs, g


def gnb_jobs(ctx, spec, cfg, cap=3, m=2, timeout=600, mem_mb=8000, tagx=''):
    """yy_get_next_buffer() unit obligation (+ witness twin)."""
    wd, g = _prep(ctx, spec, cfg, 'gnb' + tagx, extra_options=ALLOC_OPTS + ['never-interactive'])
    jobs = []
    if not g.ok:
        return jobs, g
    for name in ('yy_get_next_buffer', 'yy_buffer_stack', 'yy_c_buf_p', 'yy_n_chars'):
        if not H.has_name(g, name):
            ctx.record('gnb_%s_%s' % (spec.name, cfg.name), 'skipped', reason='internal name %s absent' % name)
            return jobs, g
    for w in (False, True):
        src = os.path.join(wd, 'gnb_c%d_m%d%s.c' % (cap, m, '_w' if w else ''))
        with open(src, 'w') as fh:
            fh.write(H.gnb_harness(g, cfg, spec, cap, m, witness=w))
        b = scanner_bounds(g, cap, 0)
        b.update({'move': cap + 2, 'grow': 4})
        j = cbmc.Job('gnb_%s_%s_c%d_m%d%s' % (spec.name, cfg.name, cap, m, '_w' if w else ''), wd, [src], b,
                     includes=[wd, H.HDIR], harness_bound=None, timeout=timeout, mem_mb=mem_mb, gen_file=g.cpath,
                     expect='witness' if w else 'proved',
                     meta=dict(engine='G1', entry=spec.name, config=cfg.name,
                               bound='capacity<=%d, any fill/partial token/status, <=%d source bytes, any read size' % (cap, m),
                               flex_input=g.ltext, flex_args=g.args))
        jobs.append(j)
    ctx.functions.update(['yy_get_next_buffer', 'yyrestart', 'yy_init_buffer', 'yy_flush_buffer'])
    return jobs, g


def cap_jobs(ctx, spec, cfg, ops=(0, 1, 2, 3, 4, 6), timeout=600, mem_mb=10000, checks='functional', action=None, tagx=''):
    """Capacity-invariant inductive-step jobs, one per API call (+ witness twins)."""
    kw = {}
    if action is not None:
        kw['action'] = action
        kw['prologue'] = 'extern int vp_rej_req;'
    wd, g = _prep(ctx, spec, cfg, 'cap' + tagx, extra_options=ALLOC_OPTS, **kw)
    jobs = []
    if not g.ok:
        return jobs, g
    names = ['yyrestart', 'yy_switch_to_buffer', 'yypush_buffer_state', 'yypop_buffer_state', 'yy_create_buffer+switch', 'yylex(empty source)', 'yylex_destroy+yyrestart']
    for op in ops:
        if op == 6 and cfg.api != 'nr':
            continue
        for w in (False, True):
            nm = 'op%d%s' % (op, '_w' if w else '')
            src = os.path.join(wd, 'cap_%s.c' % nm)
            with open(src, 'w') as fh:
                fh.write(H.cap_harness(g, cfg, spec, op=op, witness=w))
            b = scanner_bounds(g, 1, 0)
            b.update({'popall': 6, 'move': 3, 'grow': 3})
            j = cbmc.Job('cap%s_%s_%s_%s' % (tagx, spec.name, cfg.name, nm), wd, [src], b,
                         includes=[wd, H.HDIR], harness_bound=None, timeout=timeout, mem_mb=mem_mb, gen_file=g.cpath, checks=checks,
                         expect='witness' if w else 'proved',
                         meta=dict(engine='CAP', entry=spec.name, config=cfg.name + ('+REJECT' if tagx == 'rej' else ''),
                                   bound='one call of %s from a fresh scanner or from an arbitrary buffer stack of depth 1-2 with recorded sizes 1..40 (YY_BUF_SIZE 8) and arbitrary ledger sizes satisfying the capacity invariant' % names[op],
                                   flex_input=g.ltext, flex_args=g.args))
            jobs.append(j)
    ctx.functions.update(['yyrestart', 'yy_create_buffer', 'yy_switch_to_buffer', 'yypush_buffer_state', 'yypop_buffer_state',
                          'yylex_destroy', 'yyensure_buffer_stack', 'yy_init_buffer', 'yy_flush_buffer', 'yy_delete_buffer'])
    return jobs, g


def g2_jobs(ctx, spec, cfg, cap=3, m=2, nops=1, timeout=600, mem_mb=8000, tagx='', extra_options=()):
    """yyinput()/yyunput() unit obligations from an arbitrary in-action buffer state (+ witness twin)."""
    wd, g = _prep(ctx, spec, cfg, 'g2' + tagx, extra_options=ALLOC_OPTS + ['never-interactive'] + list(extra_options))
    jobs = []
    if not g.ok:
        return jobs, g
    for name in ('yy_get_next_buffer', 'yy_buffer_stack', 'yy_c_buf_p', 'yy_n_chars', 'yy_hold_char', 'yyunput_r', 'yyinput'):
        if not H.has_name(g, name):
            ctx.record('g2_%s_%s' % (spec.name, cfg.name), 'skipped', reason='internal name %s absent' % name)
            return jobs, g
    for w in (False, True):
        src = os.path.join(wd, 'g2_c%d_m%d_o%d%s.c' % (cap, m, nops, '_w' if w else ''))
        with open(src, 'w') as fh:
            fh.write(H.g2_harness(g, cfg, spec, cap, m, nops=nops, witness=w))
        b = scanner_bounds(g, cap + m, 0)
        b.update({'move': cap + m + 2, 'grow': 4, 'shiftup': cap + m + 4, 'fn:yyinput': nops + 2})
        j = cbmc.Job('g2_%s_%s_c%d_m%d_o%d%s' % (spec.name, cfg.name, cap, m, nops, '_w' if w else ''), wd, [src], b,
                     includes=[wd, H.HDIR], harness_bound=None, timeout=timeout, mem_mb=mem_mb, gen_file=g.cpath,
                     expect='witness' if w else 'proved',
                     meta=dict(engine='G2', entry=spec.name, config=cfg.name,
                               bound='capacity<=%d, any fill/token/status, <=%d source bytes in any chunks, %d solver-chosen edit(s) yyinput()/yyunput(c)' % (cap, m, nops),
                               flex_input=g.ltext, flex_args=g.args))
        jobs.append(j)
    ctx.functions.update(['yyinput', 'yyunput_r', 'yy_get_next_buffer', 'yyrestart'])
    return jobs, g


def e3w_jobs(ctx, spec, cfg, bs, m, maxnul=1, witness=True, timeout=900, mem_mb=12000, tagx='',
             extra_options=(), interactive_check=False, more=False):
    """Inductive refill step jobs (white box)."""
    genkw = {}
    if more:
        tagx += 'more'
        genkw = dict(action=lambda r: '{ if (vp_more_req) yymore(); return %d; }' % H.spec_action_id(spec, r),
                     prologue='extern int vp_more_req;')
    wd, g = _prep(ctx, spec, cfg, 'e3w' + tagx, extra_options=ALLOC_OPTS + list(extra_options), **genkw)
    jobs = []
    if not g.ok:
        return jobs, g
    for name in ('yy_get_next_buffer', 'yy_buffer_stack', 'yy_c_buf_p', 'yy_n_chars', 'yy_hold_char'):
        if not H.has_name(g, name):
            ctx.record('e3w_%s_%s' % (spec.name, cfg.name), 'skipped', reason='internal name %s absent' % name)
            return jobs, g
    n = bs + m
    for w in ([False, True] if witness else [False]):
        src = os.path.join(wd, 'e3w_b%d_m%d%s.c' % (bs, m, '_w' if w else ''))
        with open(src, 'w') as fh:
            fh.write(H.e3w_harness(g, cfg, spec, bs, m, maxnul=maxnul, witness=w, interactive_check=interactive_check, more=more))
        b = scanner_bounds(g, n, maxnul, refills=m)
        b.update({'move': n + 2, 'grow': 4, 'goto_match': maxnul + m + 1, 'match': n + 3, 'prevstate': n + 2})
        # per arm of the end-of-buffer case: every refill that delivers bytes continues the scan once (<= m),
        # every NUL of the stream takes one NUL arm once, the last match is taken at most once
        b.update({'goto_match_cont': m + 1, 'goto_match_nul': maxnul + 1, 'goto_find_action_nul': maxnul + 1,
                  'goto_find_action_last': 2})
        j = cbmc.Job('e3w%s_%s_%s_b%d_m%d%s' % ('more' if more else '', spec.name, cfg.name, bs, m, '_w' if w else ''), wd, [src], b,
                     includes=[wd, H.HDIR], harness_bound=None, timeout=timeout, mem_mb=mem_mb, gen_file=g.cpath,
                     expect='witness' if w else 'proved',
                     meta=dict(engine='E3', entry=spec.name, config=cfg.name,
                               bound='buffer capacity %d with any fill/position/status, %d further source bytes, any read sizes, one yylex step%s' % (bs, m, ' after yymore() with any previous token still in the buffer' if more else ''),
                               flex_input=g.ltext, flex_args=g.args))
        jobs.append(j)
    ctx.functions.update(['yylex', 'yy_get_next_buffer', 'yy_get_previous_state', 'yy_try_NUL_trans', 'yyrestart',
                          'yy_init_buffer', 'yy_flush_buffer'])
    return jobs, g


def e4_jobs(ctx, spec, cfg, mode, lengths, maxnul=0, timeout=600, mem_mb=10000, witness_len=None, extra_options=(), rej_k=None, interior=False):
    """History jobs: mode in reject | yyreject | edit | more."""
    wd = ctx.subdir('%s__%s__e4%s' % (spec.name, cfg.name, mode))
    opts = ALLOC_OPTS + list(extra_options)
    if cfg.api == 'r':
        opts = opts + ['reentrant']
    g = H.gen_history_scanner(ctx.ensure_tree(), wd, spec, H.Config(cfg.name, cfg.flags, cfg.options, cfg.api), mode,
                              extra_options=ALLOC_OPTS + list(extra_options))
    hdr = os.path.join(wd, 'vp_harness.h')
    if not os.path.exists(hdr):
        shutil.copy(os.path.join(H.HDIR, 'vp_harness.h'), hdr)
    jobs = []
    if not g.ok:
        return jobs, g
    for n in lengths:
        for w in ([False, True] if (witness_len == n) else [False]):
            itag = ('_int' if interior else '') + ('_nul%d' % min(maxnul, n) if (min(maxnul, n) and mode.startswith(('reject', 'yyreject'))) else '')
            src = os.path.join(wd, 'e4%s_n%d%s%s%s.c' % (mode, n, '_w' if w else '', '' if rej_k is None else '_k%d' % rej_k, itag))
            with open(src, 'w') as fh:
                if mode in ('reject', 'yyreject', 'reject_sites', 'yyreject_sites'):
                    fh.write(H.e4_reject_harness(g, cfg, spec, n, maxnul=min(maxnul, n), witness=w, rej_k=rej_k, interior=interior))
                else:
                    fh.write(H.e4_edit_harness(g, cfg, spec, n, mode=mode, maxnul=min(maxnul, n), witness=w))
            b = scanner_bounds(g, n + 1, min(maxnul, n) + 1)
            nv = n * len(spec.rules) + 2
            b.update({'goto_find_rule': nv, 'find_rule_for': n + 3, 'shiftup': n + 6,
                      'action_site': (nv if mode in ('reject', 'yyreject', 'reject_sites', 'yyreject_sites') else n + 3)})
            if rej_k is not None:
                b['action_site'] = rej_k + 2
            if mode.startswith(('reject', 'yyreject')) and min(maxnul, n) == 0 and n > 0 and not interior:
                # no NUL in the input: the end of the buffer is met once, with pending text (one 'goto
                # yy_find_action'); no NUL transition, no EOF action, every action returns
                b.update({'goto_match': 1, 'goto_find_action': 2, 'goto_do_action': 1, 'outer': 1})
            if mode in ('less', 'unput', 'input') and n > 0:
                # one yylex() call on a yy_scan_buffer source whose action returns after the edit: same arm bounds as the
                # E1 step (each NUL takes a NUL arm once, the end of the buffer is met once, no refill continues the scan)
                k = min(maxnul, n)
                b.update({'outer': 1, 'goto_match_cont': 1, 'goto_match_nul': 1 + k, 'goto_find_action_nul': 1 + k,
                          'goto_find_action_last': 2, 'goto_do_action': 1})
            if interior:
                # the end-of-buffer code is not entered: its back edges (and the outer action loop) are
                # not taken; the unwinding assertions check exactly that
                b = scanner_bounds(g, n + 2, min(maxnul, n) + 1)
                b.update({'goto_find_rule': nv, 'find_rule_for': n + 3, 'action_site': (rej_k + 2 if rej_k is not None else nv),
                          'goto_match': 1, 'goto_find_action': 1, 'goto_do_action': 1, 'outer': 1})
            j = cbmc.Job('e4%s_%s_%s_n%d%s%s%s' % (mode, spec.name, cfg.name, n, '_w' if w else '', '' if rej_k is None else '_k%d' % rej_k, itag), wd, [src], b,
                         includes=[wd, H.HDIR], harness_bound=None, timeout=timeout, mem_mb=mem_mb, gen_file=g.cpath,
                         expect='witness' if w else 'proved',
                         meta=dict(engine='E4', entry=spec.name, config=cfg.name,
                                   bound='%s: input length %d%s, nul<=%d' % (mode, n, ' + 1 byte at which the match attempt has jammed' if interior else '', min(maxnul, n)),
                                   flex_input=g.ltext, flex_args=g.args))
            jobs.append(j)
    ctx.functions.update(['yylex', 'yyunput_r', 'yyinput', 'yyless', 'yymore', 'yyreject'])
    return jobs, g


def api_jobs(ctx, spec, cfg, lengths, alloc_fail=False, second_lex=False, checks='functional', timeout=600,
             mem_mb=10000, witness_len=None, tagx='', ops=(0, 1, 2, 3, 4, 5), fail_ats=(None,)):
    """Buffer-API history jobs with the allocation ledger (C11/C13/C14)."""
    wd, g = _prep(ctx, spec, cfg, 'api' + tagx, extra_options=ALLOC_OPTS)
    jobs = []
    if not g.ok:
        return jobs, g
    for n, op, fa in [(n, op, fa) for n in lengths for op in ops for fa in fail_ats]:
        for w in ([False, True] if (witness_len == n and op == ops[0]) else [False]):
            tag = 'api%s%s%s_n%d_op%d%s%s' % (tagx, '_af' if alloc_fail else '', '_2' if second_lex else '', n, op, '' if fa is None else '_k%d' % fa, '_w' if w else '')
            src = os.path.join(wd, tag + '.c')
            with open(src, 'w') as fh:
                fh.write(H.api_harness(g, cfg, spec, n, witness=w, alloc_fail=alloc_fail, second_lex=second_lex, op=op, fail_at=fa))
            b = scanner_bounds(g, n, 0)
            j = cbmc.Job('%s_%s_%s' % (tag, spec.name, cfg.name), wd, [src], b, includes=[wd, H.HDIR], checks=checks,
                         harness_bound=None, timeout=timeout, mem_mb=mem_mb, gen_file=g.cpath,
                         expect='witness' if w else 'proved',
                         meta=dict(engine='E4', entry=spec.name, config=cfg.name,
                                   bound='two buffers of %d bytes, buffer operation %d after a yylex step%s%s'
                                   % (n, op, (', allocation request %s fails' % ('k (symbolic)' if fa is None else fa)) if alloc_fail else '', ', then a second step' if second_lex else ''),
                                   flex_input=g.ltext, flex_args=g.args))
            jobs.append(j)
    ctx.functions.update(['yy_scan_buffer', 'yy_scan_bytes', 'yy_switch_to_buffer', 'yypush_buffer_state', 'yypop_buffer_state',
                          'yy_delete_buffer', 'yy_flush_buffer', 'yylex_destroy', 'yyensure_buffer_stack', 'yy_load_buffer_state'])
    return jobs, g


def wrap_jobs(ctx, spec, cfg, lengths, timeout=400, mem_mb=10000, witness_len=None, mores=(0, 1, 2)):
    """yywrap() continuation jobs (scanner generated WITHOUT noyywrap)."""
    wd, g = _prep(ctx, spec, cfg, 'wrap', extra_options=[o for o in ALLOC_OPTS if o != 'noyywrap'])
    jobs = []
    if not g.ok:
        return jobs, g
    for n in lengths:
        for more in mores:
            if n == 0 and more == 1:
                continue
            for w in ([False, True] if (witness_len == n and more) else [False]):
                src = os.path.join(wd, 'wrap_n%d_m%d%s.c' % (n, more, '_w' if w else ''))
                with open(src, 'w') as fh:
                    fh.write(H.wrap_harness(g, cfg, spec, n, witness=w, more=more))
                b = scanner_bounds(g, n, 1)
                b['outer'] = 3
                j = cbmc.Job('wrap_%s_%s_n%d_m%d%s' % (spec.name, cfg.name, n, more, '_w' if w else ''), wd, [src], b,
                             includes=[wd, H.HDIR], harness_bound=None, timeout=timeout, mem_mb=mem_mb, gen_file=g.cpath,
                             expect='witness' if w else 'proved',
                             meta=dict(engine='E4', entry=spec.name, config=cfg.name,
                                       bound='empty first source; yywrap %s (%d bytes)' % (('reports no further input', 'supplies a second source', 'pops back to the buffer pushed before')[more], n),
                                       flex_input=g.ltext, flex_args=g.args))
                jobs.append(j)
    ctx.functions.update(['yylex', 'yywrap (user)', 'yypop_buffer_state', 'yypush_buffer_state', 'yy_scan_buffer'])
    return jobs, g


def iso_jobs(ctx, spec, cfg, lengths, timeout=400, mem_mb=10000, witness_len=None):
    wd, g = _prep(ctx, spec, cfg, 'iso', extra_options=ALLOC_OPTS)
    jobs = []
    if not g.ok:
        return jobs, g
    for n in lengths:
        for w in ([False, True] if witness_len == n else [False]):
            src = os.path.join(wd, 'iso_n%d%s.c' % (n, '_w' if w else ''))
            with open(src, 'w') as fh:
                fh.write(H.iso_harness(g, cfg, spec, n, witness=w))
            b = scanner_bounds(g, n, 1)
            if n > 0:
                # one yylex() call on a yy_scan_buffer source with at most one NUL: same arm bounds as the E1 step
                b.update({'outer': 1, 'goto_match_cont': 1, 'goto_match_nul': 2, 'goto_find_action_nul': 2,
                          'goto_find_action_last': 2, 'goto_do_action': 1})
            j = cbmc.Job('iso_%s_%s_n%d%s' % (spec.name, cfg.name, n, '_w' if w else ''), wd, [src], b,
                         includes=[wd, H.HDIR], harness_bound=None, timeout=timeout, mem_mb=mem_mb, gen_file=g.cpath,
                         expect='witness' if w else 'proved',
                         meta=dict(engine='E4', entry=spec.name, config=cfg.name, bound='two instances, %d bytes each, one step each' % n,
                                   flex_input=g.ltext, flex_args=g.args))
            jobs.append(j)
    return jobs, g


def tables_jobs(ctx, spec, cfg, depth, e1_lengths=(), timeout=600, mem_mb=12000, witness=False):
    """The same E2/E1 obligations on a scanner whose tables are loaded from the
    --tables-file flex wrote (C15)."""
    wd = ctx.subdir('%s__%s__tbl' % (spec.name, cfg.name))
    tcfg = H.Config(cfg.name, cfg.flags, list(cfg.options) + ['tables-file="scanner.tables"'], cfg.api)
    g = H.gen_scanner(ctx.ensure_tree(), wd, spec, tcfg, extra_options=ALLOC_OPTS)
    hdr = os.path.join(wd, 'vp_harness.h')
    if not os.path.exists(hdr):
        shutil.copy(os.path.join(H.HDIR, 'vp_harness.h'), hdr)
    jobs = []
    tpath = os.path.join(wd, 'scanner.tables')
    if not g.ok or not os.path.exists(tpath):
        g.ok = False
        return jobs, g
    nbytes = os.path.getsize(tpath)
    b = scanner_bounds(g, depth, 0)
    if cfg.table_kind != 'fullspd' and depth:
        for w in ([False, True] if witness else [False]):
            txt, _ = H.with_tables(H.e2_harness(g, tcfg, spec, depth, witness_len=(1 if w else None), use_acclist=H.has_name(g, 'yy_acclist')), g, tpath)
            src = os.path.join(wd, 'tbl_e2_d%d%s.c' % (depth, '_w' if w else ''))
            with open(src, 'w') as fh:
                fh.write(txt)
            j = cbmc.Job('tbl_e2_%s_%s_d%d%s' % (spec.name, cfg.name, depth, '_w' if w else ''), wd, [src], b, includes=[wd, H.HDIR],
                         harness_bound=nbytes + 8, default_bound=nbytes + 8, timeout=timeout, mem_mb=mem_mb, gen_file=g.cpath,
                         expect='witness' if w else 'proved',
                         meta=dict(engine='E2', entry=spec.name, config=cfg.name + '+tables-file', bound='depth<=%d, %d-byte tables file' % (depth, nbytes),
                                   flex_input=g.ltext, flex_args=g.args))
            jobs.append(j)
    for n in e1_lengths:
        txt, _ = H.with_tables(H.e1_harness(g, tcfg, spec, n, min(1, n)), g, tpath)
        src = os.path.join(wd, 'tbl_e1_n%d.c' % n)
        with open(src, 'w') as fh:
            fh.write(txt)
        j = cbmc.Job('tbl_e1_%s_%s_n%d' % (spec.name, cfg.name, n), wd, [src], scanner_bounds(g, n, min(1, n)), includes=[wd, H.HDIR],
                     harness_bound=nbytes + 8, default_bound=nbytes + 8, timeout=timeout, mem_mb=mem_mb, gen_file=g.cpath,
                     meta=dict(engine='E1', entry=spec.name, config=cfg.name + '+tables-file', bound='len=%d nul<=%d' % (n, min(1, n)),
                               flex_input=g.ltext, flex_args=g.args))
        jobs.append(j)
    ctx.functions.update(['yytables_fload', 'yytbl_hdr_read', 'yytbl_data_load', 'yytbl_fload', 'yy_get_previous_state'])
    return jobs, g


def stack_jobs(ctx, spec, cfg, timeout=400, mem_mb=10000):
    wd, g = _prep(ctx, spec, cfg, 'stack', extra_options=ALLOC_OPTS + ['stack'])
    jobs = []
    if not g.ok:
        return jobs, g
    for w in (False, True):
        src = os.path.join(wd, 'stack%s.c' % ('_w' if w else ''))
        with open(src, 'w') as fh:
            fh.write(H.stack_harness(g, cfg, spec, witness=w))
        j = cbmc.Job('stack_%s_%s%s' % (spec.name, cfg.name, '_w' if w else ''), wd, [src], scanner_bounds(g, 2, 0),
                     includes=[wd, H.HDIR], harness_bound=None, timeout=timeout, mem_mb=mem_mb, gen_file=g.cpath,
                     expect='witness' if w else 'proved',
                     meta=dict(engine='E4', entry=spec.name, config=cfg.name,
                               bound='27 pushes (past YY_START_STACK_INCR) and 27 pops, 3 solver-chosen push/pop/begin operations, optional yylex_destroy() and reuse (non-reentrant), optional underflow',
                               flex_input=g.ltext, flex_args=g.args))
        jobs.append(j)
    ctx.functions.update(['yy_push_state', 'yy_pop_state', 'yy_top_state', 'yylex_destroy', 'yy_init_globals'])
    return jobs, g


def yyread_jobs(ctx, spec, cfg, variants=('fread', 'getc', 'read'), m=3, k=3, cap=3, timeout=300, mem_mb=8000):
    """yyread() unit obligations against a nondeterministic stdio/read(2) environment (+ witness twins)."""
    jobs = []
    gens = {}
    for v in variants:
        opts = ALLOC_OPTS + (['read'] if v == 'read' else [])
        key = 'rd_read' if v == 'read' else 'rd_stdio'
        if key not in gens:
            gens[key] = _prep(ctx, spec, cfg, key, extra_options=opts)
        wd, g = gens[key]
        if not g.ok:
            continue
        if 'yyread' not in g.text:
            ctx.record('rd_%s_%s_%s' % (v, spec.name, cfg.name), 'skipped', reason='no yyread() in this scanner')
            continue
        for w in (False, True):
            src = os.path.join(wd, 'rd_%s%s.c' % (v, '_w' if w else ''))
            with open(src, 'w') as fh:
                fh.write(H.yyread_harness(g, cfg, spec, v, m=m, k=k, cap=cap, witness=w))
            b = scanner_bounds(g, cap, 0)
            b.update({'fread': k + 1, 'getc': cap + k + 2, 'fn:yyread': cap + k + 2})
            j = cbmc.Job('rd_%s_%s_%s%s' % (v, spec.name, cfg.name, '_w' if w else ''), wd, [src], b,
                         includes=[wd, H.HDIR], harness_bound=None, timeout=timeout, mem_mb=mem_mb, gen_file=g.cpath,
                         expect='witness' if w else 'proved',
                         meta=dict(engine='RD', entry=spec.name, config=cfg.name + '/' + v,
                                   bound='request size <= %d, <= %d source bytes, <= %d environment events, each delivering any count and optionally EINTR or a hard error' % (cap, m, k),
                                   flex_input=g.ltext, flex_args=g.args))
            jobs.append(j)
    ctx.functions.update(['yyread'])
    return jobs, gens


def tload_jobs(ctx, spec, cfg, layouts=('W', 'OW', 'WO', 'OOW', 'OWO'), widths=((2, 1), (1, 1), (4, 2)), n=2, cuts=('OW',), cut_step=1, timeout=300, mem_mb=8000):
    """Generated tables reader (yytables_fload .. yytables_destroy) on file images with symbolic table contents."""
    wd = ctx.subdir('%s__%s__tl' % (spec.name, cfg.name))
    tcfg = H.Config(cfg.name, cfg.flags, list(cfg.options) + ['tables-file="scanner.tables"'], cfg.api)
    g = H.gen_scanner(ctx.ensure_tree(), wd, spec, tcfg, extra_options=ALLOC_OPTS)
    hdr = os.path.join(wd, 'vp_harness.h')
    if not os.path.exists(hdr):
        shutil.copy(os.path.join(H.HDIR, 'vp_harness.h'), hdr)
    jobs = []
    if not g.ok:
        return jobs, g
    plan = [(lay, w1, w2, None, False) for lay in layouts for (w1, w2) in widths]
    pad8 = lambda x: (x + 7) & ~7
    for lay in cuts:
        # file offsets: header 32 bytes; other set = header + one 4-byte table; wanted set = header + two tables
        off, wend = 0, 0
        for ch in lay:
            off += 32 + (pad8(12 + 4) if ch == 'O' else pad8(12 + n * 2) + pad8(12 + n * 1))
            if ch == 'W':
                wend = off
        plan += [(lay, 2, 1, k, False) for k in range(0, wend, cut_step)]
    plan.append(('OW', 2, 1, None, True))
    for lay, w1, w2, cut_at, wit in plan:
        cut = cut_at is not None
        tag = '%s_w%d%d%s%s' % (lay, w1, w2, '_cut%d' % cut_at if cut else '', '_w' if wit else '')
        src = os.path.join(wd, 'tl_%s.c' % tag)
        with open(src, 'w') as fh:
            fh.write(H.tload_harness(g, tcfg, spec, lay, w1, w2, n=n, cut=cut, witness=wit, cut_at=cut_at or 0))
        b = scanner_bounds(g, 2, 0)
        b.update({'fn:yytbl_fload': len(lay) + 3, 'fn:yytbl_data_load': 10, 'fn:yytbl_dmap_lookup': 12, 'fn:yytables_destroy': 12})
        j = cbmc.Job('tl_%s_%s_%s' % (spec.name, cfg.name, tag), wd, [src], b, includes=[wd, H.HDIR],
                     harness_bound=70, default_bound=12, timeout=timeout, mem_mb=mem_mb, gen_file=g.cpath,
                     extra=['--max-field-sensitivity-array-size', '300'],
                     expect='witness' if wit else 'proved',
                     meta=dict(engine='TL', entry=spec.name, config=cfg.name + '+tables-file',
                               bound='file layout %s (W = set named for the scanner, O = other set), %d elements per table of widths %d/%d bytes, element bytes symbolic%s'
                                     % (lay, n, w1, w2, ', file cut at offset %d' % cut_at if cut else ''),
                               flex_input=g.ltext, flex_args=g.args))
        jobs.append(j)
    ctx.functions.update(['yytables_fload', 'yytbl_fload', 'yytbl_hdr_read', 'yytbl_data_load', 'yytbl_dmap_lookup', 'yytbl_read8', 'yytbl_read16', 'yytbl_read32', 'yytables_destroy'])
    return jobs, g
